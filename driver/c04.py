"""C04 - real mpirun part: OpenMPI launches of harness/c04_mpi_real.cpp (built with mpicxx against the real <mpi.h>)."""
import json, os, subprocess
import core


def real_mpirun(c):
    exe = os.path.join(c.bdir, 'c04_mpi_real')
    cmd = ['mpicxx', '-std=c++11', '-O1', '-g', '-I', os.path.join(core.REPO, 'include'), '-I', os.path.join(core.VERIF, 'harness'),
           os.path.join(core.VERIF, 'harness', 'c04_mpi_real.cpp'), '-o', exe]
    p = subprocess.run(cmd, stdout=subprocess.PIPE, stderr=subprocess.STDOUT, universal_newlines=True)
    if p.returncode != 0:
        raise core.Inconclusive('mpicxx build failed: ' + p.stdout[-2000:])
    nps = [2, 3, 5] if c.tier == 'quick' else [1, 2, 3, 4, 5, 6, 8, 11]
    reps = 1 if c.tier == 'quick' else 5
    launch = 0
    for rep in range(reps):
        for np_ in nps:
            launch += 1
            d = os.path.join(c.bdir, 'mpi.%d' % launch)
            os.makedirs(d)
            argv = ['mpirun', '--allow-run-as-root', '--oversubscribe', '-np', str(np_), exe, str(c.seed * 1000 + launch), d]
            try:
                p = subprocess.run(argv, stdout=subprocess.PIPE, stderr=subprocess.PIPE, universal_newlines=True, timeout=300, cwd=d)
            except subprocess.TimeoutExpired:
                c.inconclusive.append('mpirun -np %d timed out (possible hang; wall clock is never a verdict)' % np_)
                continue
            meta = dict(program='c04_mpi_real.cpp', variant='np%d' % np_, build='mpicxx', case=None)
            got = False
            for line in p.stdout.splitlines():
                if not line.startswith('{'):
                    continue
                try:
                    r = json.loads(line)
                except ValueError:
                    continue
                if r.get('t') == 'viol':
                    c.add_violation('real-mpirun:' + r['key'], dict(meta, detail=r.get('detail')))
                elif r.get('t') == 'done':
                    got = True
                    c.evaluations += r['runs']
                    c.count('real_mpirun_points_compared', r['points'])
                    c.count('real_mpirun_iterations_compared', r['iterations'])
                    for s in r.get('sigs', []):
                        c.sigs.add(s)
            if p.returncode != 0 or not got:
                c.add_violation('real-mpirun:crash-or-abort:np=%d' % np_, dict(meta, detail={'rc': p.returncode, 'stderr': p.stderr[-1500:], 'stdout': p.stdout[-500:]}))
            c.count('real_mpirun_launches')
