"""C18 - a killed run always leaves a complete checkpoint file: crash-point enumeration with the LD_PRELOAD
interposer (interpose/crashpoint.c).  Level: fault_enumeration."""
import concurrent.futures as cf, json, os, random, re, shutil, subprocess
import core

WORKLOADS = [('plain-minstd', 4), ('plain-mt19937', 3), ('vegas-dist', 3), ('mc-40', 3), ('mpi-plain', 3)]
# checkpoint file names: one ending in the suffix the library uses for its temporary file, one without extension, one with two dots
FILENAME = {'plain-minstd': 'chk.tmp', 'plain-mt19937': 'chkpt', 'vegas-dist': 'chk.txt', 'mc-40': 'chk.v2.dat', 'mpi-plain': 'mpi.chk'}


def _sh(argv, env=None, timeout=300, cwd=None):
    try:
        p = subprocess.run(argv, env=env, stdout=subprocess.PIPE, stderr=subprocess.PIPE, timeout=timeout, cwd=cwd)
        return p.returncode, p.stdout.decode(errors='replace'), p.stderr.decode(errors='replace')
    except subprocess.TimeoutExpired:
        return None, '', 'timeout'


def _read(p):
    try:
        with open(p, 'rb') as f:
            return f.read()
    except OSError:
        return None


def run(c):
    so = os.path.join(c.bdir, 'libcp.so')
    rc, out, err = _sh(['gcc', '-shared', '-fPIC', '-O1', '-o', so, os.path.join(core.VERIF, 'interpose', 'crashpoint.c'), '-ldl'])
    if rc != 0:
        raise core.Inconclusive('interposer build failed: ' + err[-2000:])
    app = os.path.join(c.bdir, 'c18_app')
    c.build_all([dict(src='c18_app.cpp', out=app, build='plain1', extra_inc=[os.path.join(core.VERIF, 'shim')], libs=['-pthread'])])
    rnd = random.Random(c.seed)
    plans = []       # (workload, iters, event dict, phase, prefix, refs, final)
    info = {}
    for wl, iters in WORKLOADS:
        d = os.path.join(c.bdir, 'rec.' + wl)
        ck, ref = os.path.join(d, 'ck'), os.path.join(d, 'ref')
        os.makedirs(ck); os.makedirs(ref)
        env = dict(os.environ, LD_PRELOAD=so, VF_CP_DIR=ck + '/', VF_CP_LOG=os.path.join(d, 'rec.log'))
        rc, out, err = _sh([app, wl, os.path.join(ck, FILENAME[wl]), ref, str(iters)], env=env)
        if rc != 0:
            c.inconclusive.append('record run of %s failed rc=%s %s' % (wl, rc, err[-500:]))
            continue
        events, it = [], 0
        for line in open(os.path.join(d, 'rec.log')):
            f = line.split()
            if f[0] == 'MARK':
                it = int(f[1])
            elif f[0] == 'EV':
                events.append(dict(n=int(f[1]), name=f[2], what=f[3], bytes=int(f[4]), iteration=it))
        refs = {0: None}
        for k in range(1, iters + 1):
            refs[k] = _read(os.path.join(ref, 'ref.%d' % k))
        final = _read(os.path.join(ref, 'final'))
        endfile = _read(os.path.join(ck, FILENAME[wl]))
        if final is None or endfile != final or any(refs[k] is None for k in range(1, iters + 1)):
            c.add_violation('record-run:file-after-clean-run-is-not-the-final-checkpoint:' + wl, dict(program='c18_app', case=None, detail={'workload': wl}))
            continue
        writes = [e for e in events if e['name'] in ('write', 'writev')]
        info[wl] = dict(events=len(events), iterations=iters, checkpoint_bytes=[len(refs[k]) for k in range(1, iters + 1)],
                        event_names_first_iteration=[e['name'] for e in events if e['iteration'] == 1],
                        write_sizes=[e['bytes'] for e in writes])
        c.count('record_events', len(events))
        for e in events:
            plans.append((wl, iters, e, 'before', None, refs, final))
            plans.append((wl, iters, e, 'after', None, refs, final))
            if e['name'] in ('write', 'writev'):
                n = e['bytes']
                if n <= 4096 and c.tier == 'thorough':
                    ks = list(range(0, n + 1))
                else:
                    ks = {0, 1, n - 1, n // 2}
                    for b in range(4096, n, 4096):
                        ks.update((b - 1, b, b + 1))
                    for b in range(8191, n, 8191):
                        ks.add(b)
                    want = 64 if c.tier == 'thorough' else (12 if n > 4096 else 24)
                    while len(ks) < min(n, want + 4):
                        ks.add(rnd.randrange(0, n))
                    ks = sorted(k for k in ks if 0 <= k < n)
                for k in ks:
                    plans.append((wl, iters, e, 'partial', k, refs, final))
                # the write fails (disk full) after 0 / half / all but one of its bytes; the process goes on and is killed when the next
                # iteration has been computed (or ends normally after the last one)
                for k in (ks if c.tier == 'thorough' else sorted({0, n // 2, max(n - 1, 0)})):
                    plans.append((wl, iters, e, 'fail', k, refs, final))
    if c.tier == 'thorough':
        _strace_crosscheck(c, app, so, info)
    c.extra['workloads'] = info

    def one(i_plan):
        i, (wl, iters, e, phase, k, refs, final) = i_plan
        d = os.path.join(c.bdir, 'k%06d' % i)
        ck, ref = os.path.join(d, 'ck'), os.path.join(d, 'ref')
        os.makedirs(ck); os.makedirs(ref)
        env = dict(os.environ, LD_PRELOAD=so, VF_CP_DIR=ck + '/')
        if wl.startswith('mpi'):
            env['VF_CP_JITTER'] = str(c.seed * 100003 + i)       # rank threads get out of step at their file-system events
        if phase == 'before':
            env['VF_CP_KILL_BEFORE'] = str(e['n'])
        elif phase == 'after':
            env['VF_CP_KILL_AFTER'] = str(e['n'])
        elif phase == 'partial':
            env['VF_CP_PARTIAL'] = '%d:%d' % (e['n'], k)
        else:
            env['VF_CP_FAIL'] = '%d:%d' % (e['n'], k)
            env['VF_CP_KILL_AT_MARK'] = str(e['iteration'] + 1)
            env['VF_CP_LOG'] = os.path.join(d, 'fail.log')
        f = os.path.join(ck, FILENAME[wl])
        rc, out, err = _sh([app, wl, f, '-', str(iters)], env=env)
        res = dict(workload=wl, event=e['n'], event_name=e['name'], iteration=e['iteration'], phase=phase, prefix=k, rc=rc)
        if phase == 'fail':
            log = _read(os.path.join(d, 'fail.log')) or b''
            res['write_failures_injected'] = log.count(b'FAILED')
            # after the last iteration there is no further callback: the process ends normally
            expected_rc = -9 if e['iteration'] < iters else 0
            if rc != expected_rc or res['write_failures_injected'] == 0:
                res['status'] = 'not-killed'
                shutil.rmtree(d, ignore_errors=True)
                return res
        elif rc != -9:
            res['status'] = 'not-killed'
            shutil.rmtree(d, ignore_errors=True)
            return res
        content = _read(f)
        j = e['iteration']
        res['file'] = 'absent' if content is None else ('%d bytes' % len(content))
        # admissible: the checkpoint of the previous iteration (none before the first) or the new one
        if content is None:
            ok = j <= 1
        else:
            ok = (j >= 1 and content == refs.get(j)) or (j >= 2 and content == refs.get(j - 1))
        res['status'] = 'ok' if ok else 'bad-file'
        if not ok:
            res['matches_any_reference'] = any(content == refs[x] for x in refs if refs[x] is not None) if content is not None else False
        # second job, killed before its first write to the file (after whatever it does on start-up): the file is still that checkpoint
        if ok and i % 2 == 0:
            envk = dict(os.environ, LD_PRELOAD=so, VF_CP_DIR=ck + '/', VF_CP_KILL_FIRST_WRITE='1')
            rck, outk, errk = _sh([app, wl, f, '-', str(iters)], env=envk)
            if rck == -9:
                res['second_job_killed_before_its_first_write'] = True
                c2 = _read(f)
                if c2 != content:
                    res['status'] = 'bad-file-after-second-kill'
                    res['file_after_second_kill'] = 'absent' if c2 is None else ('%d bytes' % len(c2))
                    res['matches_any_reference'] = any(c2 == refs[x] for x in refs if refs[x] is not None) if c2 is not None else False
            elif rck != 0:
                res['status'] = 'second-job-failed'
        # restart without faults: must reach the reference final checkpoint
        env2 = dict(os.environ)
        rc2, out2, err2 = _sh([app, wl, f, ref, str(iters)], env=env2)
        fin = _read(os.path.join(ref, 'final'))
        res['restart'] = 'ok' if (rc2 == 0 and fin == final) else ('rc=%s' % rc2 if rc2 != 0 else 'different-final-checkpoint')
        shutil.rmtree(d, ignore_errors=True)
        return res

    with cf.ThreadPoolExecutor(core.NCPU) as ex:
        results = list(ex.map(one, enumerate(plans)))
    notkilled = 0
    for r in results:
        c.evaluations += 1
        key_tail = '%s:%s:%s' % (r['workload'], r['event_name'], r['phase'])
        if r['status'] == 'not-killed':
            notkilled += 1
            continue
        c.count('kill_points_executed')
        c.count('kills_%s' % r['phase'])
        c.sigs.add(hash((r['workload'], r['event'], r['phase'], r['prefix'])) & 0xffffffffffffffff)
        if r.get('second_job_killed_before_its_first_write'):
            c.count('second_jobs_killed_before_their_first_write')
        if r['phase'] == 'fail':
            c.count('write_failures_injected', r.get('write_failures_injected', 0))
        if r['status'] == 'bad-file-after-second-kill':
            c.add_violation('file-changed-by-a-resumed-job-killed-before-its-first-write:' + key_tail, dict(program='c18_app', variant=r['workload'], build='plain1', case=None, detail=r))
        if r['status'] == 'second-job-failed':
            c.add_violation('resumed-job-failed:' + key_tail, dict(program='c18_app', variant=r['workload'], build='plain1', case=None, detail=r))
        if r['status'] == 'bad-file':
            c.add_violation('file-not-a-complete-checkpoint-after-kill:' + key_tail, dict(program='c18_app', variant=r['workload'], build='plain1', case=None, detail=r))
        if r['restart'] != 'ok':
            c.add_violation('restart-does-not-reach-the-reference-result:' + key_tail, dict(program='c18_app', variant=r['workload'], build='plain1', case=None, detail=r))
        if len(c.samples) < 6 and r['phase'] == 'partial':
            c.samples.append(json.dumps(r))
    if notkilled:
        c.inconclusive.append('%d kill points were never reached (process was not killed)' % notkilled)
    c.extra['kill_plans'] = len(plans)
    c.require('kill_points_executed', 20)
    c.require('kills_partial', 5)
    c.require('kills_fail', 5)
    c.require('second_jobs_killed_before_their_first_write', 5)


def _strace_crosscheck(c, app, so, info):
    """independent confirmation that the interposer's numbered events coincide with real system calls"""
    for wl, iters in WORKLOADS:
        if wl not in info:
            continue
        d = os.path.join(c.bdir, 'st.' + wl)
        ck = os.path.join(d, 'ck'); os.makedirs(ck)
        tr = os.path.join(d, 'trace')
        rc, out, err = _sh(['strace', '-f', '-e', 'trace=openat,write,writev,rename,renameat,renameat2', '-o', tr, app, wl, os.path.join(ck, FILENAME[wl]), '-', str(iters)])
        if rc != 0 or not os.path.exists(tr):
            c.inconclusive.append('strace cross-check could not run for %s' % wl)
            continue
        txt = open(tr, errors='replace').read()
        fds = set()
        nwrite = 0
        for line in txt.splitlines():
            m = re.search(r'openat\([^,]+, "([^"]*)", ([^)]*)\) = (\d+)', line)
            if m and m.group(1).startswith(ck) and 'O_WRONLY' in m.group(2):
                fds.add(m.group(3))
                continue
            m = re.search(r'\b(write|writev)\((\d+),', line)
            if m and m.group(2) in fds:
                nwrite += 1
        want = len(info[wl]['write_sizes'])
        info[wl]['strace_write_syscalls'] = nwrite
        c.count('strace_write_syscalls_matched', min(nwrite, want))
        if nwrite != want:
            c.inconclusive.append('strace sees %d write syscalls on the checkpoint file of %s, the interposer numbered %d' % (nwrite, wl, want))
