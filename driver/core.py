"""Driver core: build monitor programs from $VERIF_REPO/include, run them in parallel, turn what they
observed (JSON lines, sanitizer reports, crashes) into violation keys, match keys against
known_findings.json, write evidence.  stdlib only (system python3)."""
import atexit, concurrent.futures as cf, fnmatch, glob, hashlib, json, os, re, shutil, signal
import struct, subprocess, sys, time

VERIF = os.path.dirname(os.path.dirname(os.path.abspath(__file__)))
REPO = os.environ.get('VERIF_REPO', '/repo')
NCPU = int(os.environ.get('VERIF_JOBS', '16'))

GXX_COMMON = ['-std=c++11', '-g', '-fno-omit-frame-pointer', '-Wall', '-Wno-unused-function',
              '-Wno-unused-variable', '-Wno-unused-but-set-variable']
BUILDS = {
    # ASan fatal; UBSan in recover mode so that one report does not mask the rest: report blocks
    # are counted from stderr afterwards (exit codes are not trusted).
    'asan': dict(cxx='g++', flags=['-O1', '-fsanitize=address,undefined,float-cast-overflow',
                                   '-fno-sanitize-recover=address'],
                 env={'ASAN_OPTIONS': 'abort_on_error=0:detect_leaks=1:exitcode=98:allocator_may_return_null=1',
                      'UBSAN_OPTIONS': 'print_stacktrace=1:halt_on_error=0'}),
    'clang': dict(cxx='clang++-14', flags=['-O1', '-fsanitize=address,undefined', '-fno-sanitize=object-size',
                                           '-fno-sanitize-recover=address'],
                  env={'ASAN_OPTIONS': 'abort_on_error=0:detect_leaks=0:exitcode=98',
                       'UBSAN_OPTIONS': 'print_stacktrace=1:halt_on_error=0'}),
    'tsan': dict(cxx='g++', flags=['-O1', '-fsanitize=thread'], libs=['-pthread'],
                 env={'TSAN_OPTIONS': 'halt_on_error=0:exitcode=96:second_deadlock_stack=1'}),
    # coverage-guided: libFuzzer mutates the byte stream that feeds the harness' generators (same monitors)
    'fuzz': dict(cxx='clang++-14', flags=['-O1', '-fsanitize=fuzzer,address,undefined', '-fno-sanitize=object-size',
                                          '-fno-sanitize-recover=address', '-DVF_FUZZ'],
                 env={'ASAN_OPTIONS': 'abort_on_error=0:detect_leaks=0:exitcode=98',
                      'UBSAN_OPTIONS': 'print_stacktrace=1:halt_on_error=0'}),
    'plain': dict(cxx='g++', flags=['-O2'], env={}),
    'plain1': dict(cxx='g++', flags=['-O1'], env={}),
    'memcheck': dict(cxx='g++', flags=['-O1'], env={},
                     wrap=['valgrind', '-q', '--error-exitcode=97', '--track-origins=yes', '--leak-check=no']),
}

T_VARIANTS = [('float', ['-DVF_T=float']), ('double', ['-DVF_T=double']), ('ldouble', ['-DVF_T=long double'])]


def log(*a):
    print(*a, flush=True)


class Inconclusive(Exception):
    pass


class Check:
    def __init__(self, pid, tier, seed, level='exploration'):
        self.pid, self.tier, self.seed, self.level = pid, tier, seed, level
        self.t0 = time.time()
        self.bdir = os.path.join(VERIF, 'build', '%s.%d' % (pid, os.getpid()))
        os.makedirs(self.bdir, exist_ok=True)
        atexit.register(self.cleanup)
        self.viol = {}          # key -> dict(count, first=detail record)
        self.counters = {}
        self.evaluations = 0
        self.sigs = set()
        self.samples = []
        self.extra = {}
        self.inconclusive = []
        self.replay_only = None
        self.replay_filter = None
        self.known = load_known()
        self.watchdog = 5400 if tier == 'thorough' else 1200

    def cleanup(self):
        shutil.rmtree(self.bdir, ignore_errors=True)
        try:
            os.rmdir(os.path.join(VERIF, 'build'))
        except OSError:
            pass

    # ---------------------------------------------------------------------------------------- build
    def compile(self, src, out, build, defs=(), extra_inc=(), extra_flags=(), libs=()):
        b = BUILDS[build]
        cmd = [b['cxx']] + GXX_COMMON + b['flags'] + list(defs) + list(extra_flags)
        for inc in extra_inc:
            cmd += ['-I', inc]
        cmd += ['-I', os.path.join(REPO, 'include'), '-I', os.path.join(VERIF, 'harness'),
                os.path.join(VERIF, 'harness', src), '-o', out] + b.get('libs', []) + list(libs)
        p = subprocess.run(cmd, stdout=subprocess.PIPE, stderr=subprocess.STDOUT, universal_newlines=True)
        return p.returncode, cmd, p.stdout

    def build_all(self, jobs):
        """jobs: list of dict(src,out,build,defs,...) -> compiled in parallel; failure => inconclusive"""
        with cf.ThreadPoolExecutor(NCPU) as ex:
            futs = {ex.submit(self.compile, j['src'], j['out'], j['build'], j.get('defs', ()),
                              j.get('extra_inc', ()), j.get('extra_flags', ()), j.get('libs', ())): j
                    for j in jobs}
            for f in cf.as_completed(futs):
                rc, cmd, out = f.result()
                if rc != 0:
                    self.inconclusive.append('build failed: %s\n%s' % (' '.join(cmd), out[-3000:]))
        if self.inconclusive:
            raise Inconclusive(self.inconclusive[0])

    # ------------------------------------------------------------------------------------------ run
    def run_proc(self, argv, build, tag, env_extra=None, timeout=None, cwd=None, stdin=None):
        b = BUILDS[build]
        env = dict(os.environ)
        env.update(b['env'])
        if env_extra:
            env.update(env_extra)
        argv = b.get('wrap', []) + argv
        errf = os.path.join(self.bdir, tag + '.stderr')
        outf = os.path.join(self.bdir, tag + '.stdout')
        timeout = timeout or self.watchdog
        for attempt in (0, 1):
            with open(errf, 'wb') as ef, open(outf, 'wb') as of:
                try:
                    p = subprocess.run(argv, stdout=of, stderr=ef, env=env, timeout=timeout, cwd=cwd or self.bdir,
                                       stdin=stdin or subprocess.DEVNULL)
                    rc = p.returncode
                    break
                except subprocess.TimeoutExpired:
                    rc = None
        if rc is None:
            self.inconclusive.append('watchdog (%ds) expired twice for %s' % (timeout, tag))
        return rc, outf, errf

    def run_many(self, runs):
        """runs: list of dict(exe, build, variant, shards, args=[], env={}, src=...). All (run, shard)
        pairs share one pool of NCPU workers."""
        tasks = []
        for r in runs:
            if self.replay_only is not None:
                tasks.append((r, 0))
            else:
                tasks += [(r, sh) for sh in range(r['shards'])]

        def one(t):
            r, sh = t
            tag = '%s.s%d' % (os.path.basename(r['exe']), sh)
            sig = os.path.join(self.bdir, tag + '.sig')
            argv = [r['exe'], '--seed', str(self.seed), '--tier', self.tier, '--shard', '%d/%d' % (sh, r['shards']),
                    '--sigfile', sig, '--variant', r['variant']] + list(r.get('args', ()))
            env = r.get('env')
            if r['build'] == 'fuzz':
                corpus = os.path.join(self.bdir, tag + '.corpus')
                os.makedirs(corpus, exist_ok=True)
                argv = [r['exe'], '-runs=%d' % r.get('fuzz_runs', 20000), '-seed=%d' % (self.seed * 1000 + sh + 1), '-max_len=2048',
                        '-rss_limit_mb=6000', '-timeout=120', '-artifact_prefix=' + os.path.join(self.bdir, tag + '.'), corpus]
                env = dict(env or {}, VERIF_SEED=str(self.seed), VF_SIGFILE=sig, VF_VARIANT=r['variant'])
            elif self.replay_only is not None:
                argv += ['--case', str(self.replay_only)]
            rc, outf, errf = self.run_proc(argv, r['build'], tag, env)
            return r, sh, rc, outf, errf, sig, argv

        with cf.ThreadPoolExecutor(NCPU) as ex:
            res = list(ex.map(one, tasks))
        for r, sh, rc, outf, errf, sig, argv in res:
            meta = dict(program=r.get('src', os.path.basename(r['exe'])), variant=r['variant'], build=r['build'],
                        shard='%d/%d' % (sh, r['shards']), argv=argv[1:])
            self.parse_output(outf, errf, rc, meta)
            if os.path.exists(sig):
                data = open(sig, 'rb').read()
                self.sigs.update(struct.unpack('<%dQ' % (len(data) // 8), data[:len(data) // 8 * 8]))

    def std(self, programs):
        """programs: list of dict(src, build, variants=[(name, defs)], shards={'quick':n,'thorough':m},
        tiers=(...), args=[], libs=[], extra_inc=[]).  Build everything, then run everything."""
        jobs, runs = [], []
        for pr in programs:
            if self.tier not in pr.get('tiers', ('quick', 'thorough')):
                continue
            if pr['build'] == 'fuzz' and self.replay_only is not None:
                continue
            stem = os.path.splitext(os.path.basename(pr['src']))[0]
            for vname, defs in pr.get('variants', T_VARIANTS):
                if self.replay_only is not None and self.replay_filter and \
                        (self.replay_filter.get('program'), self.replay_filter.get('variant'), self.replay_filter.get('build')) != (pr['src'], vname, pr['build']):
                    continue
                out = os.path.join(self.bdir, '%s.%s.%s' % (stem, pr['build'], vname))
                jobs.append(dict(src=pr['src'], out=out, build=pr['build'], defs=list(defs) + list(pr.get('defs', ())),
                                 libs=pr.get('libs', ()), extra_inc=pr.get('extra_inc', ()),
                                 extra_flags=pr.get('extra_flags', ())))
                sh = pr.get('shards', {}).get(self.tier, 1)
                runs.append(dict(exe=out, build=pr['build'], variant=vname, shards=sh, args=pr.get('args', ()),
                                 env=pr.get('env'), src=pr['src'], fuzz_runs=pr.get('fuzz_runs', {}).get(self.tier, 20000)))
        tb = time.time()
        self.build_all(jobs)
        self.extra['build_s'] = round(time.time() - tb, 1)
        self.extra['programs_run'] = sorted(set('%s[%s/%s]' % (r['src'], r['build'], r['variant']) for r in runs))
        self.run_many(runs)

    def parse_output(self, outf, errf, rc, meta):
        done = False
        seen = {}
        for line in open(outf, 'r', errors='replace'):
            line = line.strip()
            if not line.startswith('{'):
                continue
            try:
                r = json.loads(line)
            except ValueError:
                continue
            t = r.get('t')
            if t == 'viol':
                seen[r['key']] = seen.get(r['key'], 0) + 1
                self.add_violation(r['key'], dict(meta, case=r.get('case'), detail=r.get('detail')), n=0)
            elif t == 'inconclusive':
                self.inconclusive.append('%s: %s' % (meta['program'], r.get('why')))
            elif t == 'done':
                done = True
                self.evaluations += r['evaluations']
                for k, v in r['counters'].items():
                    self.counters[k] = self.counters.get(k, 0) + v
                for k, v in r['viol_keys'].items():
                    self.add_violation(k, dict(meta, case=None, detail=None), n=v)
                    seen.pop(k, None)
                for s in r['samples']:
                    if len(self.samples) < 6:
                        self.samples.append(s)
        for k, v in seen.items():
            self.add_violation(k, dict(meta, case=None, detail=None), n=v)
        err = open(errf, 'r', errors='replace').read()
        mcase = re.search(r'^VF_CASE (\d+)', err, re.M)
        minput = re.search(r'^VF_INPUT (.*)$', err, re.M)
        for key, excerpt in sanitizer_keys(err):
            det = {'report': excerpt}
            if minput and key.split(':')[0] == 'asan':
                det['input'] = minput.group(1)[:6000]
            self.add_violation(key, dict(meta, case=int(mcase.group(1)) if (mcase and key.startswith('asan')) else None, detail=det))
        if rc is None:
            return
        if rc != 0 or not done:
            if rc == 3 and self.inconclusive:
                return
            keys = list(sanitizer_keys(err))
            if not keys:
                m = re.search(r"Assertion `(.*)' failed", err)
                if m:
                    self.add_violation('assertion:' + re.sub(r'\s+', ' ', m.group(1))[:80],
                                       dict(meta, case=None, detail={'stderr': err[-1500:]}))
                elif 'terminate called' in err:
                    m = re.search(r"instance of '([^']*)'", err)
                    self.add_violation('uncaught:' + (m.group(1) if m else 'unknown'),
                                       dict(meta, case=None, detail={'stderr': err[-1500:]}))
                else:
                    self.add_violation('crash:rc=%s' % rc, dict(meta, case=None, detail={'stderr': err[-1500:]}))

    # ---------------------------------------------------------------------------------- violations
    def add_violation(self, key, rec, n=1):
        key = key.replace(' ', '_')
        key = '%s:%s' % (self.pid, key) if not key.startswith(self.pid + ':') else key
        v = self.viol.setdefault(key, {'count': 0, 'first': rec})
        v['count'] += n

    def count(self, name, n=1):
        self.counters[name] = self.counters.get(name, 0) + n

    def require(self, counter, minimum=1):
        if self.replay_only is not None:
            return
        if self.counters.get(counter, 0) < minimum:
            self.inconclusive.append('monitor observed too little: %s=%d < %d' % (counter, self.counters.get(counter, 0), minimum))

    # -------------------------------------------------------------------------------------- finish
    def finish(self, rule, assumptions, extra_cov=None, exhaustive=None, write_evidence=True):
        os.makedirs(os.path.join(VERIF, 'replay'), exist_ok=True)
        unlisted, listed = [], []
        for key in sorted(self.viol):
            k = match_known(self.known, self.pid, key)
            (listed if k else unlisted).append((key, k))
        for key, k in listed:
            log('KNOWN-FINDING: property=%s %s [key=%s, seen %d times]' % (self.pid, k['what'], key, self.viol[key]['count']))
        for key, _ in unlisted:
            rec = self.viol[key]
            h = hashlib.sha1(key.encode()).hexdigest()[:10]
            path = os.path.join(VERIF, 'replay', '%s-%s.json' % (self.pid, h))
            with open(path, 'w') as f:
                json.dump(dict(property=self.pid, key=key, seed=self.seed, tier=self.tier, count=rec['count'],
                               **{k: v for k, v in rec['first'].items()}), f, indent=1, default=str)
            log('  violation key=%s count=%d detail=%s' % (key, rec['count'], json.dumps(rec['first'].get('detail'), default=str)[:600]))
            log('VIOLATION property=%s replay=%s' % (self.pid, path))
        wall = time.time() - self.t0
        cov = dict(evaluations=int(self.evaluations), distinct_nontrivial=len(self.sigs), rule=rule,
                   samples=[json.loads(s) if isinstance(s, str) else s for s in self.samples] or ['(none)'],
                   counters=self.counters)
        if exhaustive is not None:
            cov['exhaustive'] = exhaustive
        cov.update(self.extra)
        if extra_cov:
            cov.update(extra_cov)
        ev = dict(property_id=self.pid, tier=self.tier, seed=self.seed, level=self.level, coverage=cov,
                  assumptions=assumptions, wall_s=round(wall, 2), violations=len(unlisted),
                  known_findings_seen=[k for k, _ in listed], repo=REPO,
                  inconclusive=self.inconclusive)
        if write_evidence and self.replay_only is None and not os.environ.get('VERIF_NO_EVIDENCE'):
            os.makedirs(os.path.join(VERIF, 'evidence'), exist_ok=True)
            with open(os.path.join(VERIF, 'evidence', self.pid + '.json'), 'w') as f:
                json.dump(ev, f, indent=1, default=str)
        log('%s tier=%s seed=%d: evaluations=%d distinct_nontrivial=%d violations=%d known=%d wall=%.1fs' % (
            self.pid, self.tier, self.seed, self.evaluations, len(self.sigs), len(unlisted), len(listed), wall))
        log('  counters: ' + json.dumps(self.counters, sort_keys=True))
        if unlisted:
            return 1
        if self.inconclusive:
            for i in self.inconclusive:
                log('INCONCLUSIVE property=%s %s' % (self.pid, i))
            return 2
        if self.replay_only is None and (self.evaluations < 1 or len(self.sigs) < 2):
            log('INCONCLUSIVE property=%s too few events observed' % self.pid)
            return 2
        return 0


# --------------------------------------------------------------------------------- sanitizer reports
def _first_repo_frame(block):
    """-> (file basename, function) of the first stack frame in the library headers (else first frame)"""
    frames = re.findall(r'#\d+ 0x[0-9a-f]+ in (.+?) (/\S+?):(\d+)', block)
    pick = None
    for fn, path, _ in frames:
        if '/include/hep/' in path:
            pick = (fn, path)
            break
    if not pick and frames:
        for fn, path, _ in frames:
            if '/harness/' in path or '/shim/' in path:
                pick = (fn, path)
                break
    if not pick:
        return ('?', '?')
    fn = pick[0]
    for _ in range(12):
        fn2 = re.sub(r'<[^<>]*>', '', fn)
        if fn2 == fn:
            break
        fn = fn2
    fn = re.sub(r'\(.*$', '', fn)
    fn = fn.split('::')[-1].strip() or fn
    return (os.path.basename(pick[1]), fn)


def sanitizer_keys(err):
    out = []
    seen = set()
    # UBSan
    for m in re.finditer(r'^(\S+?):(\d+):(\d+): runtime error: (.*)$', err, re.M):
        path, msg = m.group(1), m.group(4)
        block = err[m.start():m.start() + 4000]
        nxt = re.search(r'\n\S+:\d+:\d+: runtime error:', block[10:])
        if nxt:
            block = block[:nxt.start() + 10]
        if 'outside the range of representable values' in msg:
            kind = 'float-cast-overflow'
        elif 'signed integer overflow' in msg:
            kind = 'signed-integer-overflow'
        elif 'division by zero' in msg:
            kind = 'div-by-zero'
        elif 'null pointer' in msg or 'null' in msg:
            kind = 'null'
        elif 'out of bounds' in msg:
            kind = 'bounds'
        elif 'misaligned' in msg:
            kind = 'alignment'
        elif 'shift' in msg:
            kind = 'shift'
        elif 'load of value' in msg:
            kind = 'invalid-load'
        else:
            kind = re.sub(r'[^a-z]+', '-', re.sub(r'0x[0-9a-f]+', '', msg.lower()))[:40].strip('-')
        f, fn = _first_repo_frame(block)
        if f == '?':
            f = os.path.basename(path)
        key = 'ubsan:%s:%s:%s' % (kind, f, fn)
        if key not in seen:
            seen.add(key)
            out.append((key, block[:1500]))
    for m in re.finditer(r'ERROR: (AddressSanitizer|LeakSanitizer): (\S+)', err):
        block = err[m.start():m.start() + 6000]
        f, fn = _first_repo_frame(block)
        key = 'asan:%s:%s:%s' % (m.group(2).rstrip(':'), f, fn)
        if key not in seen:
            seen.add(key)
            out.append((key, block[:2500]))
    for m in re.finditer(r'WARNING: ThreadSanitizer: ([^\(\n]+)', err):
        block = err[m.start():m.start() + 6000]
        f, fn = _first_repo_frame(block)
        key = 'tsan:%s:%s:%s' % (m.group(1).strip().replace(' ', '-'), f, fn)
        if key not in seen:
            seen.add(key)
            out.append((key, block[:2500]))
    for m in re.finditer(r'==\d+== (Conditional jump or move depends on uninitialised|Use of uninitialised value|Invalid (read|write))', err):
        block = err[m.start():m.start() + 3000]
        fr = re.findall(r'(?:at|by) 0x[0-9A-F]+: (.+?) \((\S+?):(\d+)\)', block)
        f, fn = '?', '?'
        for func, fil, _ in fr:
            if fil.endswith('.hpp') and not fil.startswith('vf') and not fil.startswith('stl_') and '/' not in fil and \
                    os.path.exists(os.path.join(REPO, 'include/hep/mc', fil)):
                f, fn = fil, re.sub(r'\(.*$', '', re.sub(r'<[^<>]*>', '', re.sub(r'<[^<>]*>', '', func))).split('::')[-1]
                break
        key = 'memcheck:%s:%s:%s' % (m.group(1).split()[0].lower(), f, fn)
        if key not in seen:
            seen.add(key)
            out.append((key, block[:2000]))
    return out


# ------------------------------------------------------------------------------------ known findings
def load_known():
    p = os.path.join(VERIF, 'known_findings.json')
    if not os.path.exists(p):
        return {'known': [], 'fixed': []}
    return json.load(open(p))


def match_known(known, pid, key):
    for k in known.get('known', []):
        if k['property'] == pid and fnmatch.fnmatchcase(key, k['key']):
            return k
    return None
