"""Per-property check definitions (what to build, how many shards, which counters must be non-zero)."""
from core import T_VARIANTS

PROPS = {}


def prop(pid, rule, assumptions, level='exploration', exhaustive=None):
    def deco(fn):
        PROPS[pid] = dict(run=fn, rule=rule, assumptions=assumptions, level=level, exhaustive=exhaustive)
        return fn
    return deco


@prop('C09',
      rule="case = one weight vector (length 1..64; families small-int/dyadic/random/huge-ratio/unnormalised/equal; zeros in front, "
           "middle, end) with its scripted canonical numbers {0, 2^-64, 2*2^-64, every cumulative boundary +-1,2 ulp and +-1,2 raw "
           "steps, largest below 1, seeded}; evaluated on discrete_distribution directly, on a midpoint lattice (frequencies) and "
           "as point.channel() inside hep::multi_channel. non-trivial = vector containing a zero weight; distinct = hash of (kind, T, weights).",
      assumptions=["ScriptEngine resolution is 2^-64 (exact for float/double, coarser than 1 ulp for long double below 1/2)",
                   "interval membership is judged with tolerance (n+2)*eps_T because the library's partial sums are rounded in T",
                   "libstdc++ generate_canonical maps one 64-bit draw to raw/2^64 (self-tested at start-up)"])
def c09(c):
    c.std([dict(src='c09_select.cpp', build='asan', shards={'quick': 4, 'thorough': 5}),
           dict(src='c09_select.cpp', build='clang', shards={'quick': 1, 'thorough': 5}, tiers=('thorough',))])
    for k in ('selections', 'u_zero', 'u_max', 'u_boundary', 'cases_with_leading_zero', 'cases_with_trailing_zero',
              'lattice_cases', 'in_run_cases'):
        c.require(k)
