"""Per-property check definitions (what to build, how many shards, which counters must be non-zero)."""
from core import T_VARIANTS

PROPS = {}
SHIM = [__import__('os').path.join(__import__('core').VERIF, 'shim')]


def prop(pid, rule, assumptions, level='exploration', exhaustive=None):
    def deco(fn):
        PROPS[pid] = dict(run=fn, rule=rule, assumptions=assumptions, level=level, exhaustive=exhaustive)
        return fn
    return deco


@prop('C09',
      rule="case = one weight vector (length 1..64; families small-int/dyadic/random/huge-ratio/unnormalised/equal/subnormal/near-overflow; zeros in front, "
           "middle, end) with its scripted canonical numbers {0, 2^-64, 2*2^-64, every cumulative boundary +-1,2 ulp and +-1,2 raw "
           "steps, largest below 1, seeded}; evaluated on discrete_distribution directly, on a midpoint lattice (frequencies) and "
           "as point.channel() inside hep::multi_channel. non-trivial = vector containing a zero weight; distinct = hash of (kind, T, weights).",
      assumptions=["ScriptEngine resolution is 2^-64 (exact for float/double, coarser than 1 ulp for long double below 1/2)",
                   "interval membership is judged with tolerance (n+2)*eps_T because the library's partial sums are rounded in T",
                   "libstdc++ generate_canonical maps one 64-bit draw to raw/2^64 (self-tested at start-up)"])
def c09(c):
    c.std([dict(src='c09_select.cpp', build='asan', shards={'quick': 4, 'thorough': 5}),
           dict(src='c09_select.cpp', build='clang', shards={'quick': 1, 'thorough': 5}, tiers=('thorough',)),
           dict(src='c09_select.cpp', build='fuzz', shards={'quick': 1, 'thorough': 4}, fuzz_runs={'quick': 3000, 'thorough': 60000})])
    c.require('fuzz_inputs', 100)
    for k in ('selections', 'u_zero', 'u_max', 'u_boundary', 'cases_with_leading_zero', 'cases_with_trailing_zero',
              'lattice_cases', 'in_run_cases'):
        c.require(k)


@prop('C07',
      rule="case = one vegas_refine_pdf call (or chain of up to 12/50 successive refinements) on (bins 2..256, dims 1..4, alpha in [0,3], "
           "grid uniform/random/narrow-peak/zero-width-bins/previously refined, data one-nonzero-bin/two-spikes/geometric/denormal-scale/"
           "constant/sparse/random/all-zero); plus hep::vegas runs (2..8/30 iterations, peaked integrands) whose every logged (x, bin, w) is "
           "checked against the grid recorded in the result, scripted runs hitting canonical 0 / largest-below-1 / k/bins +-1ulp in every "
           "coordinate, direct vegas_icdf(u=1.0 and u=0), runs with an all-zero iteration, and mpi_vegas runs on the thread MPI shim (2..5 ranks, "
           "iterations with fewer calls than ranks or so few that a rank sees only zeros) where every rank's next grid must be the same judged refinement "
           "of the reduced data; in every run (alpha also exactly 0, integrands with exactly-zero regions) the proposed next grid is judged against the used "
           "grid and the reported adjustment data; single dimensions without information next to dimensions with data must keep their bins. non-trivial = non-uniform input grid, "
           "non-constant data and equidistribution actually judged (direct), or an adaptive run; distinct = hash of (T, grid, data) / run config.",
      assumptions=["equidistribution tolerance 16*(bins+8)*eps_T*sum(imp)*(1+alpha) + 8*eps_T*local density (rounding of the running sums; the boundary is interpolated from the right edge of an old bin, so its absolute error is a few eps of that edge, at most 1)",
                   "dimensions whose smallest smoothed share would be below 64*min_normal(T) are validated for grid validity only (underflow makes T and long double legitimately differ)",
                   "data whose smoothed sum overflows are not generated",
                   "reference importance function written from the documentation in long double"])
def c07(c):
    c.std([dict(src='c07_vegas_grid.cpp', build='asan', shards={'quick': 5, 'thorough': 5}, extra_inc=SHIM, libs=['-pthread']),
           dict(src='c07_vegas_grid.cpp', build='clang', shards={'quick': 1, 'thorough': 5}, tiers=('thorough',), extra_inc=SHIM, libs=['-pthread']),
           dict(src='c07_vegas_grid.cpp', build='fuzz', shards={'quick': 1, 'thorough': 4}, fuzz_runs={'quick': 3000, 'thorough': 200000}, extra_inc=SHIM, libs=['-pthread'])])
    c.require('fuzz_inputs', 100)
    for k in ('refinements', 'equi_boundaries_checked', 'all_zero_refinements', 'calls_checked', 'zero_iterations', 'scripted_runs',
              'scripted_u_zero', 'scripted_u_max', 'icdf_extreme_calls', 'adaptive_runs', 'icdf_calls_in_more_than_8_dimensions',
              'mpi_vegas_runs', 'mpi_rank_iterations_with_only_zeros_while_others_non-zero', 'in_run_next_grids_judged_for_equidistribution',
              'dims_without_information_checked_unchanged'):
        c.require(k)


@prop('C08',
      rule="case = one multi_channel_refine_weights call (or chain of up to 20) on (1..64 channels; weights normalised/unnormalised/equal/wide, "
           "with zeros; data all-zero/single-non-zero/wide-range/some-zero/equal/random; beta in (0,1]; min_weight in [0,1/channels)), plus real "
           "hep::multi_channel runs (power-law channels, 2..8/30 iterations, optional all-zero iteration, user weights with disabled channels, optional "
           "phase-space cut where all densities vanish and the integrand is zero, optional distribution, optional NaN/inf values at 5 % of the points, "
           "a third through mpi_multi_channel on the thread shim with some iterations of about as many calls as ranks) whose "
           "every used / proposed weight vector is judged. non-trivial = at least two enabled channels with positive data whose proportion was "
           "judged (direct) or an adaptive run; distinct = hash of (T, weights, data) / run config.",
      assumptions=["proportions judged against a long double reference within 16*(n+4)*eps_T relative; channels within 16*(n+2)*eps_T of the floor are ambiguous and skipped",
                   "inputs for which w*d^beta or its share underflows in T are validated as probability vectors only",
                   "enabled channels with a zero datum are judged only for >=0 and the sum (the property does not constrain them)"])
def c08(c):
    c.std([dict(src='c08_weights.cpp', build='asan', shards={'quick': 5, 'thorough': 5}, extra_inc=SHIM, libs=['-pthread']),
           dict(src='c08_weights.cpp', build='clang', shards={'quick': 1, 'thorough': 5}, tiers=('thorough',), extra_inc=SHIM, libs=['-pthread']),
           dict(src='c08_weights.cpp', build='fuzz', shards={'quick': 1, 'thorough': 4}, fuzz_runs={'quick': 3000, 'thorough': 200000}, extra_inc=SHIM, libs=['-pthread'])])
    c.require('fuzz_inputs', 100)
    for k in ('refinements', 'vectors_checked', 'all_zero_data', 'channels_ratio_judged', 'adaptive_runs', 'run_vectors_checked', 'zero_iterations', 'mpi_runs', 'used_weights_judged_against_previous_result', 'runs_started_from_reloaded_initial_checkpoint', 'runs_with_a_cut_where_all_densities_vanish', 'runs_with_non-finite_integrand_values', 'runs_with_a_distribution',
              'mpi_iterations_with_about_as_many_calls_as_ranks'):
        c.require(k)


@prop('C13',
      rule="case = one sequence of 0..12 results built with create_result (calls 2..4e9 (float: 1e6), estimates of both signs over "
           "1e-30..1e30 (float: 1e-6..1e6), relative errors 1e-8..10, results without non-zero calls mixed in) combined with "
           "weighted_with_variance / weighted_equally / chi_square_dof, checked against long double formulas, against all permutations "
           "(m<=4) or 6 seeded shuffles, and with the empty results removed; plain_results carrying 1-d and 2-d distributions are combined "
           "and every bin compared with the separate combination of that bin. non-trivial = >=2 results and the error was well enough "
           "conditioned to be judged; distinct = hash of the input results.",
      assumptions=["inputs E_i, S_i are read back through the results' own accessors; sequences whose read-back error is itself ill conditioned (kappa*64*eps > 1%) are rejected",
                   "output error tolerance scaled by kappa = 1 + E^2/((N-1) S^2) of the (value,error)<->(sum,sumsq) conversion; kappa*64*eps > 5% => error not judged (counted)",
                   "float inputs restricted so that squares and N*(N-1)*S^2 stay inside the float range"])
def c13(c):
    c.std([dict(src='c13_combine.cpp', build='asan', shards={'quick': 4, 'thorough': 5}),
           dict(src='c13_combine.cpp', build='clang', shards={'quick': 1, 'thorough': 5}, tiers=('thorough',))])
    for k in ('variance_combinations_judged', 'permutations_checked', 'empty_results_ignored_checked', 'equal_combinations',
              'chi_square_calls', 'distribution_combinations', 'bins_checked', 'combinations_with_more_than_2^32_calls'):
        c.require(k)



@prop('C16',
      rule="(a) hep::discard_before/discard_after on the whole box total 0..512 x world 1..64 x every rank (exhaustive for that box) and on "
           "seeded (total up to 2^40, world up to 2^16) pairs; (b) mpi_plain / mpi_vegas / mpi_multi_channel on the thread MPI shim for world "
           "sizes {1,2,3,4,5,7,8,16,33} (thorough: 1..33) with calls lists drawn from {0,1,P-1,P,P+1,2P-1,2P+1,3P+2,P/2,97,100}: the raw stream "
           "position at every integrand invocation of every rank (counting engine) must tile each iteration contiguously in rank order, "
           "per-rank counts differ by <=1 and sum to the total, all ranks end at the initial engine advanced by the whole run; multi-channel integrands take "
           "more random numbers than they produce coordinates; (c) per integrator one iteration of 2^32+5 (mpi_plain) / 2^31+6 calls on 7 ranks in an "
           "optimised build (per rank: count, first and last stream position, step between consecutive calls, end position). "
           "non-trivial = world>=2 and calls not divisible by world or calls<world; distinct = (integrator, T, world, calls list).",
      assumptions=["the clause 'symbolically for unbounded integers' cannot be decided by executions; wrap-around of usage*discard beyond 2^64 is not explored",
                   "per-rank shares are observed (integrand invocations + stream positions), not re-derived from the formula duplicated in the three MPI headers",
                   "MPI is the in-process thread shim (shim/mpi.h); real mpirun is exercised by C04"],
      exhaustive=False)
def c16(c):
    progs = [dict(src='c16_split.cpp', build='asan', shards={'quick': 4, 'thorough': 8}, extra_inc=SHIM, libs=['-pthread']),
             # one iteration of 2^32+5 (mpi_plain) / 2^31+6 (mpi_vegas, mpi_multi_channel) calls on 7 ranks, optimised build, nothing stored per call
             dict(src='c16_split.cpp', build='plain', shards={'quick': 3, 'thorough': 3}, extra_inc=SHIM, libs=['-pthread'],
                  variants=[('float.huge', ['-DVF_T=float', '-DVF_HUGE'])])]
    if c.tier == 'thorough':
        progs.append(dict(src='c16_split.cpp', build='tsan', shards={'quick': 4, 'thorough': 8}, extra_inc=SHIM, libs=['-pthread'],
                          variants=[('double', ['-DVF_T=double'])]))
    c.std(progs)
    c.extra['exhaustive_box'] = 'total 0..512 x world 1..64 x all ranks enumerated completely for discard_before/discard_after'
    for k in ('triples_checked', 'exhaustive_box_pairs', 'seeded_pairs', 'shim_runs', 'rank_shares_observed', 'shim_collectives', 'huge_runs',
              'multi_channel_runs_with_map_dimensions_differing_from_dimensions'):
        c.require(k)


def _t_eng_variants(nsets):
    v = []
    for tn, td in T_VARIANTS:
        for s in range(nsets):
            v.append(('%s.e%d' % (tn, s), td + ['-DVF_ENGSET=%d' % s]))
    return v


@prop('C10',
      rule="case = one run of hep::plain / vegas (uniform or random user grid) / multi_channel (weights with zeros) with a CountingEngine around "
           "one of the nine standard engines (started at a random stream offset), dims 1..5, 1..3 iterations with calls in {0,1,7,13,100}, "
           "integrand value pattern in {finite, zero, NaN-mixed, +-inf, mixed}; the integrand reads the raw-draw counter at every invocation. "
           "Plus 128 synthetic engines with ranges 2^j, 2^j+1, 2^j-1, offset (j in 1..63), 2^64 and decimal ranges: measured cost of one canonical "
           "number vs hep::random_number_usage, and a PLAIN run. A third of the VEGAS runs start from a bins-only checkpoint that went through text before the first iteration. "
           "Multi-channel integrands take dims random numbers and produce 1..dims coordinates "
           "(map_dimensions != dimensions). Plus mpi_plain / mpi_vegas / mpi_multi_channel on the thread MPI shim (2..5 ranks, minstd_rand0 and mt19937, "
           "calls also below / just above the number of ranks) with per-rank thread-local draw counters: draws between a rank's own calls, the distance "
           "each rank's generator has moved at every callback, and the generator stored in the checkpoint on every rank. "
           "distinct = (engine, T, integrator, dims, calls, pattern); all are non-trivial.",
      assumptions=["the cost k of one canonical number is MEASURED on the running standard library (one generate_canonical on a counting engine), then compared with the library's predictor",
                   "engines are the nine standard ones and the listed synthetic ranges; other user engines are not explored"])
def c10(c):
    c.std([dict(src='c10_draws.cpp', build='asan', variants=_t_eng_variants(4), shards={'quick': 1, 'thorough': 2}, extra_inc=SHIM, libs=['-pthread'])])
    for k in ('engine_type_pairs_checked', 'synthetic_ranges_checked', 'calls_checked', 'runs', 'runs_with_k>=2', 'scripted_runs', 'scripted_zero_numbers',
              'mpi_runs', 'mpi_calls_checked', 'mpi_stored_generators_checked', 'multi_channel_runs_with_map_dimensions_differing_from_dimensions',
              'mpi_multi_channel_runs_with_map_dimensions_differing_from_dimensions', 'vegas_runs_started_from_a_reloaded_never-run_checkpoint'):
        c.require(k)


@prop('C14',
      rule="case = one hep::plain_iteration whose integrand returns a value sequence scripted by call ordinal (one-large-then-small(eps/4), "
           "alternating cancellation, geometric decay, random magnitudes over 20 decades, 2^digits then all ones, small negatives after a large "
           "value, random signs with outliers; every sequence also mirrored; a quarter scaled to within `digits` binary orders of the smallest normal "
           "number, where the compensation term is subnormal), N in {1,2,3,10,1e3,1e5} or up to 1e6 (quick) / 1e7 (thorough), with or without a 1-d "
           "distribution of 1..4 unit-width bins fed by a second adversarial sequence per bin; |sum - exact| <= (4+4*N*eps)*eps*sum|v| with "
           "the exact sum from a Shewchuk expansion. non-trivial = a sequence on which naive summation (computed alongside in T) breaks the "
           "same bound; distinct = (T, sequence kind, N, scale, distribution).",
      assumptions=["bound = Kahan's 2*eps + O(N*eps^2) with margin: (4 + 4*N*eps_T)*eps_T*sum|v_i|",
                   "ExactSum (Shewchuk expansion in x87 long double, self-tested) is the trusted base; the sum of squares is not part of the property",
                   "only PLAIN with weight 1 is driven (the accumulator is shared by all integrators)"])
def c14(c):
    c.std([dict(src='c14_sums.cpp', build='plain', shards={'quick': 5, 'thorough': 5}),
           dict(src='c14_sums.cpp', build='asan', shards={'quick': 2, 'thorough': 5}, defs=['-DVF_SMALL_N'])])
    for k in ('values_summed', 'bins_checked', 'sequences_where_naive_summation_breaks_bound', 'runs_with_N>=1e6', 'runs_with_sums_near_the_smallest_normal_number'):
        c.require(k)


@prop('C17',
      rule="case = one run of hep::plain / vegas / multi_channel (dims 1..3, 1..3 iterations of 0..600 calls, mt19937 or a scripted engine that "
           "forces canonical 0 / largest-below-1 / 2^-64 into every coordinate and the channel selector) with a recording integrand (value class "
           "zero / finite / NaN / inf chosen by a hash of the point, optional explicit weight request, optional projector use) and a recording "
           "channel map (power-law channels, lazy or eagerly-filling densities, coordinates call returning jacobian / 0 / NaN, weights with disabled channels); "
           "VEGAS on uniform grids or user grids with zero-width bins, 2..16 or 7/37/50/61/100 bins, scripted numbers next to k/bins; the event stream of every "
           "call is run through the protocol state machine. non-trivial = run containing zero-valued, non-zero and weight-requesting calls; "
           "distinct = run configuration hash.",
      assumptions=["'same buffers' is judged within one call (addresses and content hashes between the two map calls); buffers may differ between calls",
                   "a density request after the integrand returned zero is accepted only if the integrand itself requested the weight (directly or via projector.add)",
                   "VEGAS points may sit up to 2 ulp right of their bin (rounding of left + t*width); left of it never (judged exactly)"])
def c17(c):
    c.std([dict(src='c17_protocol.cpp', build='asan', shards={'quick': 5, 'thorough': 5}),
           dict(src='c17_protocol.cpp', build='clang', shards={'quick': 1, 'thorough': 5}, tiers=('thorough',))])
    for k in ('calls_checked', 'map_coordinate_calls', 'map_density_calls', 'density_calls_inside_integrand', 'density_calls_after_integrand',
              'zero_valued_calls', 'non_zero_calls', 'weight_requesting_calls', 'extreme_zero_coordinates', 'extreme_max_coordinates',
              'scripted_runs', 'random_runs', 'canonical_number_exactly_one', 'vegas_points_sampled_in_a_zero-width_bin',
              'scripted_vegas_numbers_next_to_a_bin_edge'):
        c.require(k)


@prop('C02',
      rule="case = one run of hep::plain / vegas / multi_channel (dims 1..4, 1..4 iterations, calls in {0,1,2,3,5,17,100,1000} or 2..3000, engine "
           "mt19937 / minstd_rand / ranlux48 at a random offset) with a recording integrand whose value class (zero, negative, NaN/-inf, huge-but-"
           "finite, ordinary) is a hash of the point, optional 1-d distribution; after every iteration the result accessors are compared with "
           "an exact-sum recomputation from the logged (f, w, bin / channel densities). non-trivial = an iteration with N>=2 mixing zero and "
           "non-zero values; distinct = run configuration hash.",
      assumptions=["sums judged within (N+16)*eps_T*sum|terms| (loose enough for naive summation; accuracy is C14's business)",
                   "multi-channel weights are reconstructed in T from the densities/jacobian the map returned and the channel weights recorded in the result",
                   "multi-channel adjustment entries that are non-finite are not judged here (C06 decides contamination)"])
def c02(c):
    v = [('float.mt', ['-DVF_T=float']), ('double.mt', ['-DVF_T=double']), ('ldouble.mt', ['-DVF_T=long double']),
         ('double.minstd', ['-DVF_T=double', '-DVF_ENG=std::minstd_rand']), ('double.ranlux48', ['-DVF_T=double', '-DVF_ENG=std::ranlux48'])]
    c.std([dict(src='c02_estimator.cpp', build='asan', variants=v, shards={'quick': 3, 'thorough': 3}, extra_inc=SHIM, libs=['-pthread'])])
    for k in ('iterations_judged', 'adjustment_entries_judged', 'bins_judged', 'runs_plain', 'runs_vegas', 'runs_multi_channel', 'finite_values_with_non_finite_product', 'zero_values_where_weight_is_not_finite', 'constructed_results_with_N>2^32', 'denormal_values', 'mc_runs_with_densities_written_for_disabled_channels', 'mpi_iterations_with_more_than_2^24_evaluations'):
        c.require(k)


@prop('C06',
      rule="case = a PAIR of runs (poisoned, zeroed twin) of hep::plain / vegas / multi_channel with the same engine seed over 3..6 adaptive "
           "iterations of 100..1200 calls: the poison set is a hash of the sampled point (rate: ~one point in 512, 1%, 30%, 100%), kind NaN / +inf / "
           "-inf / mixed, source integrand return / value handed to projector.add / weight (map jacobian NaN, jacobian inf, all densities zero, "
           "densities of the disabled channels NaN/inf), "
           "with 1-d or 2-d distributions; a quarter of the pairs run through mpi_plain / mpi_vegas / mpi_multi_channel on 2..4 thread-shim ranks; "
           "the twin returns 0 and omits exactly the non-finite adds. All fields of all iterations, the next "
           "grid/weights and the stored generator are compared bitwise; non_zero_calls must differ by the number of poisoned evaluations; "
           "every number of the poisoned run must be finite. non-trivial = adaptive integrator and a poisoned subset that is neither empty "
           "nor everything; distinct = pair configuration hash.",
      assumptions=["the poison set is a pure function of the sampled point, so both runs agree on it as long as they sample the same points (a divergence is itself reported)",
                   "variance() is required finite for N>=2, error() is not judged (sqrt of a rounding-negative variance may be NaN legitimately)"])
def c06(c):
    c.std([dict(src='c06_nonfinite.cpp', build='asan', shards={'quick': 5, 'thorough': 5}, extra_inc=SHIM, libs=['-pthread']),
           dict(src='c06_nonfinite.cpp', build='clang', shards={'quick': 1, 'thorough': 5}, tiers=('thorough',), extra_inc=SHIM, libs=['-pthread'])])
    for k in ('pairs_plain', 'pairs_vegas', 'pairs_multi_channel', 'pairs_source_integrand-return', 'pairs_source_projector-add-value',
              'pairs_source_weight(map)', 'poisoned_evaluations', 'fields_compared', 'pairs_everything_poisoned', 'pairs_through_the_mpi_integrators'):
        c.require(k)


@prop('C11',
      rule="(A) placement cases: a binning layout (one 1-d, one 2-d, or three distributions; 1..50 x 1..20 bins; ranges unit / negative / non-unit / "
           "tiny / huge / random) probed by 40 single-call iterations, each issuing one projector.add per distribution with a directed coordinate "
           "(interior, every edge min+k*size, +-1 ulp, x_max, x_min, just below, outside, 1e30 ranges away, +-inf, NaN): the bin that received the "
           "entry must be allowed by exact arithmetic on (x-min)/size (either neighbour within one rounding error of an edge), x fastest, matching "
           "mid_points_x/y. (B) whole PLAIN/VEGAS(non-uniform grid)/multi-channel iterations with hash-chosen interior/outside coordinates: per-bin "
           "exact sums, entry counts, bin calls == N, sum(bins*area) == everything projected inside, and a differential run integrating "
           "f*indicator(bin)/area with the same random numbers; a third of the runs go through the MPI integrators on the thread shim; half are followed by "
           "2..4 short iterations accumulated with weighted_equally / weighted_with_variance (every accumulated bin reports the total number of calls, "
           "the equally weighted bin is the average of the per-iteration bins). non-trivial = every placement layout; runs with at least one outside hit; "
           "distinct = layout / run configuration hash.",
      assumptions=["a coordinate within 4*eps_T*(|q| + (|x|+|min|)/size) of an edge is ambiguous: either adjacent bin (or outside at the range ends) is accepted",
                   "float ranges are limited to 1e+-12 so that 1/area^2 stays representable; double/long double use 1e+-30",
                   "UBSan float-cast-overflow (gcc and clang builds) watches the index computation"])
def c11(c):
    c.std([dict(src='c11_bins.cpp', build='asan', shards={'quick': 5, 'thorough': 5}, extra_inc=SHIM, libs=['-pthread']),
           dict(src='c11_bins.cpp', build='clang', shards={'quick': 2, 'thorough': 5}, extra_inc=SHIM, libs=['-pthread'])])
    for k in ('placements_checked', 'placements_at_an_edge(ambiguous)', 'placements_outside_or_nonfinite', 'bins_checked', 'differential_bins_checked',
              'runs_plain', 'runs_vegas', 'runs_multi_channel', 'runs_through_mpi_shim', 'accumulated_bins_checked', 'accumulated_runs_with_a_bin_empty_in_some_iterations_only'):
        c.require(k)


@prop('C12',
      rule="case = one run (or resumed pair of runs, or shim-MPI run with 2..4 ranks) of PLAIN/VEGAS/multi-channel over 1..8 iterations of unequal "
           "calls with a recording callback: (a) user callback returning false at a chosen position or never, (b) built-in callback with target 0 "
           "in one of the four modes on integrands {ordinary, identically zero, constant, zero-mean sign-changing, non-finite everywhere, non-"
           "finite sometimes}, (c) built-in callback with a positive target aimed (from a probe run's error trajectory) at the first / a middle / "
           "the last / no iteration, (d) checkpoint -> text -> resume, (e)/(f) the MPI forms. Checked: results().size() 1,2,3.. per invocation, "
           "exactly calls[k] integrand invocations in between, earlier results untouched, stop iff false, returned checkpoint == last handed one, "
           "built-in decisions == documented variance-weighted rule in long double. non-trivial = >= 2 iterations; distinct = case configuration.",
      assumptions=["decisions with |rel - target| <= 64 eps_T target are ambiguous and skipped; with a positive target, iterations where some S_i is 0 or non-finite are not judged (the documented combination is undefined there)",
                   "with target 0 every decision is judged: the run must never end early",
                   "MPI forms run on the in-process shim; integrand invocations are summed over ranks"])
def c12(c):
    c.std([dict(src='c12_callbacks.cpp', build='asan', shards={'quick': 5, 'thorough': 5}, extra_inc=SHIM, libs=['-pthread'])])
    for k in ('callback_invocations_checked', 'builtin_decisions_checked', 'builtin_stops_on_target', 'stops_on_a_middle_iteration', 'stops_on_the_first_iteration',
              'target_never_reached', 'resumed_segments_checked', 'mpi_runs_checked', 'integrand_identically-zero', 'integrand_constant',
              'integrand_non-finite-everywhere', 'integrand_zero-mean', 'positive_target_with_undefined_relative_error', 'exact_target_runs', 'integrand_zero-throughout-one-iteration'):
        c.require(k)


import c18 as _c18


@prop('C18',
      rule="fault enumeration: for each workload (PLAIN+minstd_rand ~150 B checkpoint, PLAIN+mt19937 ~7-20 KiB, VEGAS 128 bins x 3 dims with a 1-d "
           "and a 2-d distribution > 100 KiB, multi-channel 40 channels, mpi_plain with the MPI callback on two thread ranks; checkpoint file names chk.tmp, chkpt, "
           "chk.txt, chk.v2.dat, mpi.chk) a record run under the LD_PRELOAD interposer lists every file-system "
           "event (fopen, write, writev, fclose, rename, unlink) on the checkpoint directory per iteration; then the application is started "
           "from scratch once per crash point: SIGKILL before and after EVERY event, and inside every write after a byte prefix (all prefixes "
           "for writes <= 4 KiB in the thorough tier; otherwise 0,1,n/2,n-1, every 4 KiB and 8191-byte boundary +-1 and 12..64 seeded offsets). "
           "After each kill the file must be absent (first iteration only) or byte-equal to the previous or the new reference checkpoint, "
           "and a restart without faults must reach the reference final checkpoint. Every second kill is followed by a second job on the file that was "
           "left, killed before its first write: the file must be byte-identical afterwards. Additionally every write of every iteration is made to fail "
           "with ENOSPC after 0 / half / all-but-one of its bytes (the descriptor keeps failing); the process is killed when the next iteration is done or "
           "ends normally, and the same admissibility and restart rules apply. non-trivial = every executed kill point; distinct = "
           "(workload, event number, before/after/partial, prefix).",
      assumptions=["a process kill cannot observe page-cache loss: durability against power failure (fsync) is out of reach",
                   "kills inside a system call are modelled at byte-prefix granularity of write/writev",
                   "libstdc++ reaches the kernel through fopen64/write/writev/fclose/rename in the PLT (thorough tier cross-checks the write events against strace)"],
      level='fault_enumeration', exhaustive=False)
def c18(c):
    _c18.run(c)
    c.extra['event_positions_enumerated_completely'] = True
    c.extra['byte_prefixes'] = 'all prefixes for writes <= 4 KiB in the thorough tier; boundary + seeded offsets otherwise'


@prop('C05',
      rule="case = one checkpoint (plain / VEGAS with default or user grid / multi-channel with default or user weights) built through the public "
           "constructors with 0..4 results, 0..3 distributions (1-d/2-d, 1..40 bins, names {d1, 'two words', '', ' ', '  lead', 'trail  ', '#x', "
           "'12 3', tab-led, 300 chars}), grids 2..64 bins x 1..4 dims, 1..12 channels, field values from {+-0, denormals, min normal, max, 1+ulp, "
           "1/3, random bit patterns over the whole exponent range}, counters incl. 0 and 2^64-1, for each of the nine standard engines advanced "
           "by a random amount; written to text, read back, compared accessor by accessor with memcmp (long double: 10 bytes), stream state and "
           "left-over tokens checked, every stored generator parsed back from the re-serialised text and compared with the engine that was added. "
           "non-trivial = at least one result (every case draws from the extreme value classes); distinct = hash of the text.",
      assumptions=["field values are generated through the public constructors, so distribution bin sizes are (max-min)/bins as the constructor computes them",
                   "generators other than the last are observed through the re-serialised text (they have no accessor)"])
def c05(c):
    progs = [dict(src='c05_format.cpp', build='asan', variants=_t_eng_variants(3), shards={'quick': 1, 'thorough': 2})]
    if c.tier == 'thorough':
        progs.append(dict(src='c05_format.cpp', build='clang', variants=_t_eng_variants(3), shards={'thorough': 1}))
        progs.append(dict(src='c05_format.cpp', build='memcheck', variants=[v for v in _t_eng_variants(3) if not v[0].startswith('ldouble')], shards={'thorough': 2}, args=['--tier', 'quick']))
    c.std(progs)
    for k in ('fields_compared', 'stored_generators_compared', 'checkpoints_plain', 'checkpoints_vegas', 'checkpoints_multi_channel', 'default_checkpoints_never_run'):
        c.require(k)


ENGINES9 = ['mt19937', 'minstd_rand', 'ranlux48', 'minstd_rand0', 'mt19937_64', 'ranlux24_base', 'ranlux48_base', 'ranlux24', 'knuth_b']


def _t_engine_variants(engines):
    v = []
    for tn, td in T_VARIANTS:
        for e in engines:
            v.append(('%s.%s' % (tn, e), td + ['-DVF_ENG=std::%s' % e, '-DVF_ENG_NAME="%s"' % e]))
    return v


@prop('C15',
      rule="case = one history run(m) [text reload] rollback(k) [text reload] resume(rest) with m in 1..4 (thorough 1..6) unequal iterations and "
           "EVERY k in 0..m+1, for five checkpoint flavours (PLAIN with two distributions, VEGAS default grid with distributions, VEGAS user "
           "grid, multi-channel default weights, multi-channel user weights with a disabled channel and distributions; distribution names incl. "
           "empty / blank / leading blanks), float/double/long double, engines mt19937 / minstd_rand / ranlux48 (thorough: all nine). The rolled-back "
           "checkpoint must serialise byte-identically to a separately executed run of only the first k iterations, have the same generator, "
           "k>n must throw std::out_of_range and leave the text unchanged, resuming must reproduce the original final text, and a DIFFERENT "
           "continuation (2..3 iterations with other numbers of calls) must end in the same text as that continuation of the k-iteration run. "
           "non-trivial = k<n or reloaded from text; distinct = (flavour, T, engine, calls, k, reload flags, configuration).",
      assumptions=["the box m<=4 (6) x all k x reload flags is enumerated per sampled configuration; configurations (grid, weights, names, alpha/beta) are seeded",
                   "ASan watches for empty-vector access; valgrind memcheck (thorough) for uninitialised members after reload + rollback"])
def c15(c):
    eng = ENGINES9 if c.tier == 'thorough' else ENGINES9[:3]
    progs = [dict(src='c15_rollback.cpp', build='asan', variants=_t_engine_variants(eng), shards={'quick': 2, 'thorough': 1})]
    if c.tier == 'thorough':
        progs.append(dict(src='c15_rollback.cpp', build='memcheck', variants=[v for v in _t_engine_variants(ENGINES9[:2]) if not v[0].startswith('ldouble')], shards={'thorough': 2}, args=['--tier', 'quick']))
    c.std(progs)
    for k in ('rollbacks_to_0', 'rollbacks_to_n', 'rollbacks_beyond_n', 'rollbacks_to_middle', 'reloaded_before_rollback', 'resumes_after_rollback', 'second_rollbacks_after_resume', 'different_continuations_after_rollback'):
        c.require(k)


@prop('C03',
      rule="case = one n-iteration run (n 2..4, thorough 2..6, unequal calls) of one of five flavours (PLAIN with a 1-d and a 2-d distribution, VEGAS "
           "default grid with distributions, VEGAS user grid, multi-channel default, multi-channel user weights with a disabled channel and "
           "distributions; names from {d1, 'two words', '', ' ', '  lead', 'trail  ', '#x', '12 3', 300 chars}) for float/double/long double x "
           "engines mt19937 / minstd_rand / ranlux48 (thorough: all nine), executed uninterrupted and under EVERY one of the 2^(n-1)-1 non-empty "
           "sets of interruption points, each cut going checkpoint -> text -> checkpoint via a string or via the file the built-in callback "
           "writes (silent_and_write_chkpt), optionally with a target precision chosen to stop the run early; the final texts must be byte equal. "
           "non-trivial = at least one cut and (adaptive state changed between first and last result, or distributions present); "
           "distinct = (configuration, set of cuts).",
      assumptions=["a user who sees the callback stop the run does not resume it (segments after a stop are not executed)",
                   "all compositions are enumerated per sampled configuration; configurations are seeded",
                   "names containing a newline are excluded by the property"])
def c03(c):
    eng = ENGINES9 if c.tier == 'thorough' else ENGINES9[:3]
    c.std([dict(src='c03_resume.cpp', build='asan', variants=_t_engine_variants(eng), shards={'quick': 2, 'thorough': 1}, extra_inc=SHIM, libs=['-pthread'])])
    for k in ('compositions_checked', 'interruptions', 'initial_checkpoints_reloaded_before_the_first_iteration', 'cases_file_transport', 'cases_text_transport', 'runs_stopped_early_by_target',
              'cases_plain+dists', 'cases_vegas-default+dists', 'cases_vegas-user-grid', 'cases_mc-default', 'cases_mc-user-weights+dists',
              'mpi_cases', 'mpi_compositions_checked', 'binnings_whose_bin_size_is_not_recomputable_from_the_range'):
        c.require(k)


@prop('C20',
      rule="(a) mode quadruples: the same run (PLAIN / VEGAS with distributions, multi-channel default or user weights with 1..60 channels incl. all "
           "equal, all-but-one-minimal, two groups, disabled channels; integrand ordinary / zero / constant / sometimes or always non-finite; 1..5 "
           "iterations incl. 1..3-call iterations; optional positive target) executed in all four callback modes with stdout captured: the "
           "checkpoint handed to every callback invocation and the returned checkpoint must be byte-identical across modes, verbose modes print "
           "one block per iteration, writing modes leave the returned checkpoint in the file. (b) multi_channel_summary / weight_info / "
           "max_difference / make_list_of_ranges on constructed reachable states (1..60 channels, calls 0..1e6, data incl. all-zero) under "
           "ASan/UBSan with semantic checks (permutation, sortedness, valid channel indices, range expansion). (c) the three MPI integrators on "
           "the shim with 1, 2, 5 ranks in all four modes, each rank with its own file name: output blocks == iterations (rank 0 only), only "
           "rank 0 writes, all ranks and all modes return the same checkpoint. distinct = case configuration; all are non-trivial.",
      assumptions=["stdout is captured by swapping std::cout's buffer; files are written to the check's private build directory",
                   "MPI mode comparison uses the same shim seed so that the reduction order (and hence the rounding of the sums) is identical across modes"])
def c20(c):
    c.std([dict(src='c20_reporting.cpp', build='asan', shards={'quick': 5, 'thorough': 5}, extra_inc=SHIM, libs=['-pthread'])])
    for k in ('mode_quadruples_plain+dists', 'mode_quadruples_vegas-default+dists', 'mode_quadruples_mc-default', 'mode_quadruples_mc-user-weights+dists',
              'summaries_printed', 'range_lists_checked', 'mpi_mode_quadruples', 'integrand_zero', 'integrand_constant', 'integrand_non-finite-everywhere'):
        c.require(k)


@prop('C19',
      rule="case = one VEGAS or multi-channel run of 2..5 (thorough 2..8) iterations with seeded non-default alpha / beta / minimum weight, default or "
           "user-supplied grid / weight vector (unnormalised, with zeros), executed serially, resumed through text at a random cut (including cut 0: the "
           "never-run checkpoint goes through text), rolled back and re-run with other calls, continued on the shim from a checkpoint with results, or on 2/3/5 "
           "shim-MPI ranks. Checked: result 0 records exactly the user grid / the normalised user weights / the uniform default; result k+1 "
           "records bitwise the library's own refinement of result k under the checkpoint's parameters; and every logged call is re-derived "
           "from a private copy of the engine: canonical numbers -> reference inverse CDF on the grid recorded in the result (bin exact, point "
           "within 8 eps), channel by the interval rule on the recorded weights, coordinates through the channel's map. "
           "distinct = run configuration; all runs are non-trivial (adaptive state changes every iteration).",
      assumptions=["the refinement functions themselves are judged by C07/C08; here only that the right state is threaded through",
                   "canonical numbers within 4 eps of a bin edge / (n+2) eps of a cumulative weight boundary are ambiguous and skipped",
                   "MPI runs use the in-process shim; per-rank call logs are concatenated in rank order (contiguity is C16's business)"])
def c19(c):
    c.std([dict(src='c19_state.cpp', build='asan', shards={'quick': 5, 'thorough': 5}, extra_inc=SHIM, libs=['-pthread'])])
    for k in ('first_states_checked', 'state_transitions_checked', 'coordinates_predicted', 'channels_predicted', 'runs_serial', 'runs_resumed', 'runs_mpi', 'runs_mpi-resumed', 'runs_rolled-back-and-rerun', 'runs_started_from_a_reloaded_never-run_checkpoint', 'rollbacks_of_a_run_that_was_resumed_through_text'):
        c.require(k)


@prop('C01',
      rule="case = one iteration of hep::plain_iteration / vegas_iteration / multi_channel_iteration driven by a tensor midpoint lattice (scripted "
           "engine; <= 40000 points): PLAIN and VEGAS in 1..3 dims with bins {2,3,4,5,8,16,128} and lattice bins*m per dimension so that cells never "
           "straddle a bin, on uniform grids, random user grids, user grids with very narrow and zero-width bins, and grids the library itself "
           "produced by 1..8 adaptive iterations (alpha in [0,3]) on a peaked integrand; integrands multilinear prod(a_i+c_i x_i) or "
           "bin-restricted linear (tests every bin's weight separately): estimate == closed-form integral. Multi-channel: 1..6 channels with "
           "piecewise-constant densities on 2 or 4 dyadic cells per dimension, optional position-dependent common jacobian, lattice d+1 dims; "
           "weights dyadic (estimate == integral), arbitrary, with zeros, or produced by the library from user weights and a minimum weight: "
           "estimate == sum_i (n_i/N) I_i with n_i the observed channel hits and I_i in closed form (identity sum_i alpha_i I_i = integral f "
           "self-checked); per-call weight == 1/sum_j alpha_j p_j. non-trivial = non-uniform grid / any multi-channel case; distinct = case hash.",
      assumptions=["tolerance 256*(d+2)*eps_T*|integral| (midpoints (j+1/2)/M are rounded to T for non-dyadic M)",
                   "integrands outside the exactly-integrable class and grids not reached by the sampled histories are out of reach",
                   "multi-channel weights are passed normalised, as the checkpoint always provides them"])
def c01(c):
    c.std([dict(src='c01_lattice.cpp', build='asan', shards={'quick': 5, 'thorough': 5}),
           dict(src='c01_lattice.cpp', build='clang', shards={'quick': 1, 'thorough': 5}, tiers=('thorough',))])
    for k in ('plain_lattices', 'vegas_lattices', 'mc_lattices', 'mc_lattices_exact_integral', 'mc_weights_checked_per_call', 'lattice_points', 'vegas_weights_checked_in_more_than_8_dimensions', 'lattices_with_values_above_sqrt_max'):
        c.require(k)


def _c04_variants(thorough):
    def v(tn, td, e):
        return ('%s.%s' % (tn, e), td + ['-DVF_ENG=std::%s' % e, '-DVF_ENG_NAME="%s"' % e])
    tv = dict((n, d) for n, d in T_VARIANTS)
    if thorough:
        return [v(tn, tv[tn], e) for tn in ('float', 'double', 'ldouble') for e in ('mt19937', 'mt19937_64', 'minstd_rand', 'ranlux24', 'ranlux48', 'knuth_b')]
    return [v('float', tv['float'], 'mt19937'), v('double', tv['double'], 'mt19937'), v('double', tv['double'], 'minstd_rand'),
            v('double', tv['double'], 'ranlux48'), v('ldouble', tv['ldouble'], 'mt19937_64')]


import c04 as _c04


@prop('C04',
      rule="case = one run of mpi_plain / mpi_vegas / mpi_multi_channel (1..4 channels) on the thread MPI shim with world size from {1,2,3,4,7,16,33} "
           "(thorough 1..33), 1..4 iterations with calls drawn from {0,1,P-1,P,P+1,2P+1,13,97,101,1000}, with or without a distribution, optional "
           "target precision reached mid-run, engines mt19937/minstd_rand/ranlux48/mt19937_64 (thorough also ranlux24, knuth_b: 1, 2 and 3 raw "
           "draws per number), seeded rank arrival order and reduction order per collective. For every iteration the serial *_iteration is "
           "re-run from the generator before it and the state recorded in the result: sorted per-rank point logs == sorted serial log (bitwise "
           "points, bins, channels, coordinates), counters (also per bin) equal, stored generator equal, sums / adjustment data / bins within "
           "(N+P+4) eps sum|terms|, identical checkpoint text and collective sequence on all ranks, no logical hang. Same harness under "
           "ThreadSanitizer. Plus real mpirun launches (OpenMPI, np 2,3,5; thorough more) of a program comparing per-rank point files with a "
           "serial run. non-trivial = world>=2 and calls%world!=0 or calls<world; distinct = configuration hash; the number of distinct "
           "(arrival order, reduction order) pairs observed per run is summed in the counter distinct_schedules_in_run.",
      assumptions=["MPI implementations whose allreduce returns different roundings on different ranks are not modelled (the shim delivers one reduced vector to all ranks)",
                   "world sizes above 33 are not explored; real mpirun covers np <= 5 (quick) / <= 11 (thorough)",
                   "hangs are detected logically by the shim (a rank finished while others wait in a collective), never by wall clock"])
def c04(c):
    progs = [dict(src='c04_mpi_points.cpp', build='asan', variants=_c04_variants(c.tier == 'thorough'), shards={'quick': 3, 'thorough': 1}, extra_inc=SHIM, libs=['-pthread']),
             dict(src='c04_mpi_points.cpp', build='tsan', variants=_c04_variants(False)[1:2] if c.tier == 'quick' else _c04_variants(False)[:3],
                  shards={'quick': 3, 'thorough': 4}, extra_inc=SHIM, libs=['-pthread'])]
    c.std(progs)
    _c04.real_mpirun(c)
    for k in ('iterations_compared', 'points_compared', 'bins_compared', 'collectives_checked', 'runs_mpi_plain', 'runs_mpi_vegas', 'runs_mpi_multi_channel',
              'runs_stopped_early_by_target', 'real_mpirun_launches', 'iterations_with_more_than_2^24_calls'):
        c.require(k)
