// In-process MPI shim for the hep-mc monitors (DESIGN 3.6): every rank is a std::thread, MPI_Comm is a
// pointer to the world they share.  Only what hep/mc-mpi.hpp uses is provided.  Placed first on the include
// path so that `#include <mpi.h>` inside the library resolves here.
#ifndef VF_SHIM_MPI_H
#define VF_SHIM_MPI_H

#include <chrono>
#include <condition_variable>
#include <cstdint>
#include <cstring>
#include <functional>
#include <mutex>
#include <set>
#include <string>
#include <thread>
#include <vector>

struct VfWorld;
typedef VfWorld* MPI_Comm;
typedef int MPI_Datatype;
typedef int MPI_Op;

#define MPI_UNSIGNED 1
#define MPI_UNSIGNED_LONG 2
#define MPI_UNSIGNED_LONG_LONG 3
#define MPI_FLOAT 4
#define MPI_DOUBLE 5
#define MPI_LONG_DOUBLE 6
#define MPI_INT 7
#define MPI_LONG 8
#define MPI_LONG_LONG 9
#define MPI_CHAR 10
#define MPI_UNSIGNED_CHAR 11
#define MPI_BYTE 12
#define MPI_C_BOOL 13
#define MPI_CXX_BOOL 14
#define MPI_SUM 1
#define MPI_MAX 2
#define MPI_MIN 3
#define MPI_LAND 4
#define MPI_LOR 5
#define MPI_PROD 6
#define MPI_SUCCESS 0
#define MPI_ERR_OTHER 15
#define MPI_IN_PLACE ((void*)1)

struct VfCollRec
{
    int count;
    MPI_Datatype type;
    MPI_Op op;
    bool in_place;
    int kind;       // 0 allreduce, 1 bcast, 2 barrier
    int root;
};

struct VfWorld
{
    int P = 1;
    std::uint64_t seed = 1;
    std::mutex m;
    std::condition_variable cv;
    // collective in progress
    bool leaving = false;
    int arrived = 0, remaining = 0, finished = 0;
    std::uint64_t generation = 0;
    std::vector<void*> bufs;
    std::vector<int> counts, types, order, kinds, roots, ops;
    std::vector<unsigned char> result;
    // verdict state
    bool aborted = false;
    std::string abort_reason;
    std::vector<std::vector<VfCollRec>> log;       // per rank
    std::set<std::uint64_t> schedules;              // distinct (arrival order, reduction order)
    std::uint64_t collectives = 0;
    std::uint64_t sched_state = 0;
};

inline int& vf_mpi_rank()
{
    static thread_local int r = 0;
    return r;
}

// The rank threads run on a communicator of their own; MPI_COMM_WORLD is a different object whose ranks are
// numbered differently (local rank + 3), like a sub-communicator created with MPI_Comm_split.  Code under test
// must only use the communicator it was given: every use of MPI_COMM_WORLD is counted.
inline VfWorld*& vf_mpi_current()
{
    static thread_local VfWorld* w = 0;
    return w;
}
VfWorld* vf_mpi_comm_world();
std::uint64_t& vf_mpi_world_misuse();
#define MPI_COMM_WORLD (vf_mpi_comm_world())

inline std::uint64_t vf_mpi_mix(std::uint64_t& s)
{
    std::uint64_t z = (s += 0x9e3779b97f4a7c15ULL);
    z = (z ^ (z >> 30)) * 0xbf58476d1ce4e5b9ULL;
    z = (z ^ (z >> 27)) * 0x94d049bb133111ebULL;
    return z ^ (z >> 31);
}

inline int MPI_Comm_rank(MPI_Comm c, int* rank)
{
    if (c == vf_mpi_comm_world()) { std::lock_guard<std::mutex> g(c->m); ++vf_mpi_world_misuse(); *rank = vf_mpi_rank() + 3; return MPI_SUCCESS; }
    *rank = vf_mpi_rank();
    return MPI_SUCCESS;
}
inline int MPI_Comm_size(MPI_Comm c, int* size)
{
    if (c == vf_mpi_comm_world()) { std::lock_guard<std::mutex> g(c->m); ++vf_mpi_world_misuse(); *size = (vf_mpi_current() ? vf_mpi_current()->P : 1) + 5; return MPI_SUCCESS; }
    *size = c->P;
    return MPI_SUCCESS;
}

template <typename X> inline X vf_mpi_op(X a, X b, MPI_Op op)
{
    switch (op)
    {
    case MPI_MAX: return a < b ? b : a;
    case MPI_MIN: return b < a ? b : a;
    case MPI_LAND: return X(a && b);
    case MPI_LOR: return X(a || b);
    case MPI_PROD: return X(a * b);
    default: return X(a + b);
    }
}

template <typename X> inline void vf_mpi_reduce(VfWorld* w, std::vector<int> const& red, int count, MPI_Op op = MPI_SUM)
{
    w->result.assign(sizeof(X) * (count > 0 ? count : 0), 0);
    X* out = reinterpret_cast<X*>(w->result.data());
    bool tree = (vf_mpi_mix(w->sched_state) & 1) != 0;
    for (int k = 0; k < count; ++k)
    {
        if (!tree)
        {
            X acc = static_cast<X*>(w->bufs[red[0]])[k];
            for (std::size_t j = 1; j < red.size(); ++j) acc = vf_mpi_op<X>(acc, static_cast<X*>(w->bufs[red[j]])[k], op);
            out[k] = acc;
        }
        else
        {
            std::vector<X> v(red.size());
            for (std::size_t j = 0; j < red.size(); ++j) v[j] = static_cast<X*>(w->bufs[red[j]])[k];
            for (std::size_t step = 1; step < v.size(); step *= 2)
                for (std::size_t j = 0; j + step < v.size(); j += 2 * step) v[j] = vf_mpi_op<X>(v[j], v[j + step], op);
            out[k] = v[0];
        }
    }
}

inline std::size_t vf_mpi_sizeof(MPI_Datatype t)
{
    switch (t)
    {
    case MPI_UNSIGNED: return sizeof(unsigned);
    case MPI_UNSIGNED_LONG: return sizeof(unsigned long);
    case MPI_UNSIGNED_LONG_LONG: return sizeof(unsigned long long);
    case MPI_FLOAT: return sizeof(float);
    case MPI_DOUBLE: return sizeof(double);
    case MPI_INT: return sizeof(int);
    case MPI_LONG: return sizeof(long);
    case MPI_LONG_LONG: return sizeof(long long);
    case MPI_CHAR: case MPI_UNSIGNED_CHAR: case MPI_BYTE: return 1;
    case MPI_C_BOOL: case MPI_CXX_BOOL: return sizeof(bool);
    default: return sizeof(long double);
    }
}

inline void vf_mpi_abort(VfWorld* w, std::string const& why)
{
    if (!w->aborted) { w->aborted = true; w->abort_reason = why; }
    w->cv.notify_all();
}

// one rendezvous for all collectives: kind 0 allreduce, 1 bcast (recv is the buffer on every rank), 2 barrier
inline int vf_mpi_collective(int kind, int root, const void* send, void* recv, int count, MPI_Datatype type, MPI_Op op, MPI_Comm w)
{
    if (w == vf_mpi_comm_world())
    {
        { std::lock_guard<std::mutex> g(w->m); ++vf_mpi_world_misuse(); }
        w = vf_mpi_current();      // keep the ranks going; the misuse is reported by the harness
        if (!w) return MPI_ERR_OTHER;
    }
    int const rank = vf_mpi_rank();
    // perturb the arrival order at this (real) suspension point
    {
        std::uint64_t s = w->seed * 1000003ULL + std::uint64_t(rank) * 7919ULL + w->log[rank].size() * 104729ULL;
        std::uint64_t r = vf_mpi_mix(s);
        switch (r % 4)
        {
        case 0: break;
        case 1: for (unsigned i = 0; i < (r >> 8) % 8; ++i) std::this_thread::yield(); break;
        case 2: std::this_thread::sleep_for(std::chrono::microseconds((r >> 8) % 150)); break;
        default: std::this_thread::yield(); break;
        }
    }
    std::unique_lock<std::mutex> lk(w->m);
    VfCollRec rec = {count, type, op, send == MPI_IN_PLACE, kind, root};
    w->log[rank].push_back(rec);
    if (kind == 0 && send != MPI_IN_PLACE && count > 0) std::memcpy(recv, send, vf_mpi_sizeof(type) * count);
    w->cv.wait(lk, [&] { return !w->leaving || w->aborted; });
    if (w->aborted) return MPI_ERR_OTHER;
    w->bufs[rank] = recv;
    w->counts[rank] = count;
    w->types[rank] = type;
    w->kinds[rank] = kind;
    w->roots[rank] = root;
    w->ops[rank] = op;
    w->order.push_back(rank);
    ++w->arrived;
    if (w->arrived + w->finished == w->P && w->finished > 0)
    {
        vf_mpi_abort(w, "rank(s) finished while others wait in a collective (hang)");
        return MPI_ERR_OTHER;
    }
    if (w->arrived == w->P)
    {
        for (int r = 0; r < w->P; ++r)
        {
            if (w->counts[r] != count || w->types[r] != type || w->kinds[r] != kind || w->roots[r] != root || w->ops[r] != op)
            {
                vf_mpi_abort(w, "collective mismatch: operation/count/datatype/root differ between ranks");
                return MPI_ERR_OTHER;
            }
        }
        // seeded reduction order
        std::vector<int> red(w->P);
        for (int r = 0; r < w->P; ++r) red[r] = r;
        if (vf_mpi_mix(w->sched_state) % 3 != 0)
            for (int i = w->P - 1; i > 0; --i) std::swap(red[i], red[vf_mpi_mix(w->sched_state) % (i + 1)]);
        std::uint64_t h = 1469598103934665603ULL;
        for (int r : w->order) { h ^= std::uint64_t(r) + 1; h *= 1099511628211ULL; }
        for (int r : red) { h ^= std::uint64_t(r) + 101; h *= 1099511628211ULL; }
        w->schedules.insert(h);
        ++w->collectives;
        if (kind == 1)
        {
            if (root < 0 || root >= w->P) { vf_mpi_abort(w, "bcast: invalid root"); return MPI_ERR_OTHER; }
            w->result.assign(vf_mpi_sizeof(type) * (count > 0 ? count : 0), 0);
            if (count > 0) std::memcpy(w->result.data(), w->bufs[root], w->result.size());
        }
        else if (kind == 0) switch (type)
        {
        case MPI_UNSIGNED: vf_mpi_reduce<unsigned>(w, red, count, op); break;
        case MPI_UNSIGNED_LONG: vf_mpi_reduce<unsigned long>(w, red, count, op); break;
        case MPI_UNSIGNED_LONG_LONG: vf_mpi_reduce<unsigned long long>(w, red, count, op); break;
        case MPI_FLOAT: vf_mpi_reduce<float>(w, red, count, op); break;
        case MPI_DOUBLE: vf_mpi_reduce<double>(w, red, count, op); break;
        case MPI_INT: vf_mpi_reduce<int>(w, red, count, op); break;
        case MPI_LONG: vf_mpi_reduce<long>(w, red, count, op); break;
        case MPI_LONG_LONG: vf_mpi_reduce<long long>(w, red, count, op); break;
        case MPI_CHAR: vf_mpi_reduce<char>(w, red, count, op); break;
        case MPI_UNSIGNED_CHAR: case MPI_BYTE: vf_mpi_reduce<unsigned char>(w, red, count, op); break;
        case MPI_C_BOOL: case MPI_CXX_BOOL: vf_mpi_reduce<bool>(w, red, count, op); break;
        default: vf_mpi_reduce<long double>(w, red, count, op); break;
        }
        w->leaving = true;
        w->remaining = w->P;
        ++w->generation;
        w->cv.notify_all();
    }
    else
    {
        std::uint64_t const gen = w->generation;
        w->cv.wait(lk, [&] { return w->generation != gen || w->aborted; });
        if (w->aborted) return MPI_ERR_OTHER;
    }
    if (kind != 2 && count > 0) std::memcpy(recv, w->result.data(), vf_mpi_sizeof(type) * count);
    if (--w->remaining == 0)
    {
        w->leaving = false;
        w->arrived = 0;
        w->order.clear();
        w->cv.notify_all();
    }
    return MPI_SUCCESS;
}

inline int MPI_Allreduce(const void* send, void* recv, int count, MPI_Datatype type, MPI_Op op, MPI_Comm w)
{
    return vf_mpi_collective(0, 0, send, recv, count, type, op, w);
}
inline int MPI_Bcast(void* buffer, int count, MPI_Datatype type, int root, MPI_Comm w)
{
    return vf_mpi_collective(1, root, MPI_IN_PLACE, buffer, count, type, 0, w);
}
inline int MPI_Barrier(MPI_Comm w)
{
    return vf_mpi_collective(2, 0, MPI_IN_PLACE, nullptr, 0, MPI_BYTE, 0, w);
}

inline VfWorld* vf_mpi_comm_world()
{
    static VfWorld sentinel;
    return &sentinel;
}
inline std::uint64_t& vf_mpi_world_misuse()
{
    static std::uint64_t n = 0;     // guarded by the sentinel's mutex
    return n;
}

inline std::uint64_t vf_mpi_take_misuse()
{
    std::lock_guard<std::mutex> g(vf_mpi_comm_world()->m);
    std::uint64_t n = vf_mpi_world_misuse();
    vf_mpi_world_misuse() = 0;
    return n;
}

// run fn(rank, comm) on P rank threads; returns after all have finished
inline void vf_mpi_run(VfWorld& w, int P, std::uint64_t seed, std::function<void(int, MPI_Comm)> const& fn)
{
    w.P = P;
    w.seed = seed;
    w.sched_state = seed * 0x9e3779b97f4a7c15ULL + 12345;
    w.bufs.assign(P, nullptr);
    w.counts.assign(P, 0);
    w.types.assign(P, 0);
    w.kinds.assign(P, 0);
    w.roots.assign(P, 0);
    w.ops.assign(P, 0);
    w.log.assign(P, std::vector<VfCollRec>());
    std::vector<std::thread> th;
    for (int r = 0; r < P; ++r)
    {
        th.emplace_back([&w, r, &fn] {
            vf_mpi_rank() = r;
            vf_mpi_current() = &w;
            fn(r, &w);
            std::unique_lock<std::mutex> lk(w.m);
            ++w.finished;
            if (w.arrived > 0 && w.arrived + w.finished == w.P) vf_mpi_abort(&w, "rank(s) finished while others wait in a collective (hang)");
        });
    }
    for (auto& t : th) t.join();
}

#endif
