/* LD_PRELOAD crash-point interposer for the C18 monitor (DESIGN 3.7).
 * Numbers the file-system events (open/fopen, write/writev, close/fclose, rename, unlink, fsync) that touch
 * paths under $VF_CP_DIR and, depending on the environment, logs them or kills the process (SIGKILL)
 *   VF_CP_KILL_BEFORE=n   before event n is executed
 *   VF_CP_KILL_AFTER=n    right after event n was executed
 *   VF_CP_PARTIAL=n:k     event n must be a write/writev: only its first k bytes are written, then kill
 *   VF_CP_FAIL=n:k        event n must be a write/writev: its first k bytes reach the file, then it fails with ENOSPC, and so does
 *                         every later write to the same descriptor (a disk that fills up); the process goes on
 *   VF_CP_KILL_AT_MARK=m  kill when the application announces iteration m (vf_cp_mark)
 *   VF_CP_KILL_FIRST_WRITE=1  kill before the first write/writev event of this process
 *   VF_CP_JITTER=seed     every event is preceded, with probability 1/4 (hash of seed, thread and a per-thread counter), by a 20 ms
 *                         sleep: threads that touch the files concurrently get out of step, so that windows between their system calls open
 * VF_CP_LOG=<file> receives one line per event, written with a raw write so that it survives the kill. */
#define _GNU_SOURCE
#include <dlfcn.h>
#include <errno.h>
#include <fcntl.h>
#include <signal.h>
#include <stdarg.h>
#include <stdio.h>
#include <stdlib.h>
#include <string.h>
#include <sys/syscall.h>
#include <sys/types.h>
#include <sys/uio.h>
#include <unistd.h>

#define MAXFD 4096
static char tracked[MAXFD];
static const char* cp_dir;
static size_t cp_dir_len;
static long kill_before = -1, kill_after = -1, partial_ev = -1, partial_bytes = -1, fail_ev = -1, fail_bytes = 0, kill_at_mark = -1;
static int kill_first_write = 0;
static long jitter = -1;
static __thread unsigned long jitter_count = 0;
static char failing[MAXFD];
static int log_fd = -1;
static long event_no = 0;
static int inited = 0;

static void init(void)
{
    if (inited) return;
    inited = 1;
    cp_dir = getenv("VF_CP_DIR");
    cp_dir_len = cp_dir ? strlen(cp_dir) : 0;
    const char* s;
    if ((s = getenv("VF_CP_KILL_BEFORE"))) kill_before = atol(s);
    if ((s = getenv("VF_CP_KILL_AFTER"))) kill_after = atol(s);
    if ((s = getenv("VF_CP_PARTIAL"))) { partial_ev = atol(s); const char* c = strchr(s, ':'); partial_bytes = c ? atol(c + 1) : 0; }
    if ((s = getenv("VF_CP_FAIL"))) { fail_ev = atol(s); const char* c = strchr(s, ':'); fail_bytes = c ? atol(c + 1) : 0; }
    if ((s = getenv("VF_CP_KILL_AT_MARK"))) kill_at_mark = atol(s);
    if ((s = getenv("VF_CP_KILL_FIRST_WRITE"))) kill_first_write = atoi(s);
    if ((s = getenv("VF_CP_JITTER"))) jitter = atol(s);
    if ((s = getenv("VF_CP_LOG"))) log_fd = (int)syscall(SYS_openat, AT_FDCWD, s, O_WRONLY | O_CREAT | O_APPEND, 0644);
}

static int is_tracked_path(const char* p)
{
    init();
    return cp_dir && p && strncmp(p, cp_dir, cp_dir_len) == 0;
}

static void logline(const char* fmt, ...)
{
    if (log_fd < 0) return;
    char buf[1024];
    va_list ap;
    va_start(ap, fmt);
    int n = vsnprintf(buf, sizeof buf, fmt, ap);
    va_end(ap);
    if (n > 0) syscall(SYS_write, log_fd, buf, (size_t)(n < (int)sizeof buf ? n : (int)sizeof buf - 1));
}

static void die(void)
{
    logline("KILLED at event %ld\n", event_no);
    syscall(SYS_kill, getpid(), SIGKILL);
    for (;;) pause();
}

/* returns the event number; kills if this is the kill-before point */
static long begin_event(const char* name, const char* what, long bytes)
{
    if (jitter >= 0)
    {
        unsigned long long z = (unsigned long long)jitter * 0x9e3779b97f4a7c15ULL + (unsigned long long)syscall(SYS_gettid) * 0xbf58476d1ce4e5b9ULL + (++jitter_count) * 0x94d049bb133111ebULL;
        z ^= z >> 31; z *= 0xbf58476d1ce4e5b9ULL; z ^= z >> 29;
        if ((z & 3) == 0) usleep(20000);
    }
    long n = __sync_add_and_fetch(&event_no, 1);
    logline("EV %ld %s %s %ld\n", n, name, what ? what : "-", bytes);
    if (n == kill_before) die();
    return n;
}

static void end_event(long n)
{
    if (n == kill_after) die();
}

/* marker called by the application: everything logged afterwards belongs to iteration k */
void vf_cp_mark(int k)
{
    init();
    logline("MARK %d\n", k);
    if (k == kill_at_mark) die();
}

FILE* fopen64(const char* path, const char* mode)
{
    static FILE* (*real)(const char*, const char*);
    if (!real) real = dlsym(RTLD_NEXT, "fopen64");
    if (!is_tracked_path(path)) return real(path, mode);
    long n = begin_event("fopen", path, strchr(mode, 'w') ? 1 : 0);
    FILE* f = real(path, mode);
    if (f) { int fd = fileno(f); if (fd >= 0 && fd < MAXFD) tracked[fd] = 1; }
    end_event(n);
    return f;
}

FILE* fopen(const char* path, const char* mode)
{
    static FILE* (*real)(const char*, const char*);
    if (!real) real = dlsym(RTLD_NEXT, "fopen");
    if (!is_tracked_path(path)) return real(path, mode);
    long n = begin_event("fopen", path, strchr(mode, 'w') ? 1 : 0);
    FILE* f = real(path, mode);
    if (f) { int fd = fileno(f); if (fd >= 0 && fd < MAXFD) tracked[fd] = 1; }
    end_event(n);
    return f;
}

static int open_common(int (*real)(const char*, int, ...), const char* path, int flags, mode_t mode)
{
    if (!is_tracked_path(path)) return real(path, flags, mode);
    long n = begin_event("open", path, (flags & O_TRUNC) ? 1 : 0);
    int fd = real(path, flags, mode);
    if (fd >= 0 && fd < MAXFD) tracked[fd] = 1;
    end_event(n);
    return fd;
}

int open(const char* path, int flags, ...)
{
    static int (*real)(const char*, int, ...);
    if (!real) real = dlsym(RTLD_NEXT, "open");
    mode_t mode = 0;
    if (flags & O_CREAT) { va_list ap; va_start(ap, flags); mode = va_arg(ap, mode_t); va_end(ap); }
    return open_common(real, path, flags, mode);
}

int open64(const char* path, int flags, ...)
{
    static int (*real)(const char*, int, ...);
    if (!real) real = dlsym(RTLD_NEXT, "open64");
    mode_t mode = 0;
    if (flags & O_CREAT) { va_list ap; va_start(ap, flags); mode = va_arg(ap, mode_t); va_end(ap); }
    return open_common(real, path, flags, mode);
}

ssize_t write(int fd, const void* buf, size_t count)
{
    static ssize_t (*real)(int, const void*, size_t);
    if (!real) real = dlsym(RTLD_NEXT, "write");
    init();
    if (fd < 0 || fd >= MAXFD || !tracked[fd]) return real(fd, buf, count);
    long n = begin_event("write", "-", (long)count);
    if (kill_first_write) die();
    if (failing[fd]) { logline("FAILED %ld\n", n); end_event(n); errno = ENOSPC; return -1; }
    if (n == fail_ev)
    {
        size_t k = fail_bytes < 0 ? 0 : (size_t)fail_bytes;
        if (k > count) k = count;
        if (k) real(fd, buf, k);
        failing[fd] = 1;
        logline("FAILED %ld\n", n);
        end_event(n);
        errno = ENOSPC;
        return -1;
    }
    if (n == partial_ev)
    {
        size_t k = partial_bytes < 0 ? 0 : (size_t)partial_bytes;
        if (k > count) k = count;
        if (k) real(fd, buf, k);
        die();
    }
    ssize_t r = real(fd, buf, count);
    end_event(n);
    return r;
}

ssize_t writev(int fd, const struct iovec* iov, int iovcnt)
{
    static ssize_t (*real)(int, const struct iovec*, int);
    static ssize_t (*realw)(int, const void*, size_t);
    if (!real) real = dlsym(RTLD_NEXT, "writev");
    if (!realw) realw = dlsym(RTLD_NEXT, "write");
    init();
    if (fd < 0 || fd >= MAXFD || !tracked[fd]) return real(fd, iov, iovcnt);
    size_t total = 0;
    for (int i = 0; i < iovcnt; ++i) total += iov[i].iov_len;
    long n = begin_event("writev", "-", (long)total);
    if (kill_first_write) die();
    if (failing[fd]) { logline("FAILED %ld\n", n); end_event(n); errno = ENOSPC; return -1; }
    if (n == fail_ev)
    {
        size_t k = fail_bytes < 0 ? 0 : (size_t)fail_bytes;
        for (int i = 0; i < iovcnt && k > 0; ++i)
        {
            size_t m = iov[i].iov_len < k ? iov[i].iov_len : k;
            if (m) realw(fd, iov[i].iov_base, m);
            k -= m;
        }
        failing[fd] = 1;
        logline("FAILED %ld\n", n);
        end_event(n);
        errno = ENOSPC;
        return -1;
    }
    if (n == partial_ev)
    {
        size_t k = partial_bytes < 0 ? 0 : (size_t)partial_bytes;
        for (int i = 0; i < iovcnt && k > 0; ++i)
        {
            size_t m = iov[i].iov_len < k ? iov[i].iov_len : k;
            if (m) realw(fd, iov[i].iov_base, m);
            k -= m;
        }
        die();
    }
    ssize_t r = real(fd, iov, iovcnt);
    end_event(n);
    return r;
}

int fclose(FILE* f)
{
    static int (*real)(FILE*);
    if (!real) real = dlsym(RTLD_NEXT, "fclose");
    init();
    int fd = f ? fileno(f) : -1;
    if (fd < 0 || fd >= MAXFD || !tracked[fd]) return real(f);
    /* fclose flushes the stdio buffer through write(), which is a numbered event of its own */
    long n = begin_event("fclose", "-", 0);
    int r = real(f);
    tracked[fd] = 0;
    failing[fd] = 0;
    end_event(n);
    return r;
}

int close(int fd)
{
    static int (*real)(int);
    if (!real) real = dlsym(RTLD_NEXT, "close");
    init();
    if (fd < 0 || fd >= MAXFD || !tracked[fd]) return real(fd);
    long n = begin_event("close", "-", 0);
    int r = real(fd);
    tracked[fd] = 0;
    failing[fd] = 0;
    end_event(n);
    return r;
}

int rename(const char* from, const char* to)
{
    static int (*real)(const char*, const char*);
    if (!real) real = dlsym(RTLD_NEXT, "rename");
    if (!is_tracked_path(from) && !is_tracked_path(to)) return real(from, to);
    long n = begin_event("rename", to, 0);
    int r = real(from, to);
    end_event(n);
    return r;
}

int renameat(int ofd, const char* from, int nfd, const char* to)
{
    static int (*real)(int, const char*, int, const char*);
    if (!real) real = dlsym(RTLD_NEXT, "renameat");
    if (!is_tracked_path(from) && !is_tracked_path(to)) return real(ofd, from, nfd, to);
    long n = begin_event("rename", to, 0);
    int r = real(ofd, from, nfd, to);
    end_event(n);
    return r;
}

int unlink(const char* path)
{
    static int (*real)(const char*);
    if (!real) real = dlsym(RTLD_NEXT, "unlink");
    if (!is_tracked_path(path)) return real(path);
    long n = begin_event("unlink", path, 0);
    int r = real(path);
    end_event(n);
    return r;
}

int remove(const char* path)
{
    static int (*real)(const char*);
    if (!real) real = dlsym(RTLD_NEXT, "remove");
    if (!is_tracked_path(path)) return real(path);
    long n = begin_event("unlink", path, 0);
    int r = real(path);
    end_event(n);
    return r;
}

int fsync(int fd)
{
    static int (*real)(int);
    if (!real) real = dlsym(RTLD_NEXT, "fsync");
    init();
    if (fd < 0 || fd >= MAXFD || !tracked[fd]) return real(fd);
    long n = begin_event("fsync", "-", 0);
    int r = real(fd);
    end_event(n);
    return r;
}
