#!/usr/bin/env python3
"""tried.py <id>: one line per earlier seeded change for the property (summaries written by the sub-agents themselves)."""
import glob, json, sys
pid = sys.argv[1]
for f in sorted(glob.glob('/verif/seeded/%s?/meta.json' % pid)):
    m = json.load(open(f))
    print('- ' + m.get('summary', '').replace('\n', ' ')[:220])
