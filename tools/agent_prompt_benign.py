#!/usr/bin/env python3
"""Prompt for a sub-agent that writes behaviour-preserving refactorings (to probe the checks for false alarms)."""
import sys
grp = sys.argv[1]
files = {
 'A': 'accumulator.hpp projector.hpp mc_result.hpp plain_result.hpp distribution_result.hpp',
 'B': 'vegas_pdf.hpp vegas.hpp vegas_chkpt.hpp vegas_result.hpp vegas_point.hpp',
 'C': 'multi_channel.hpp multi_channel_point.hpp multi_channel_refine_weights.hpp multi_channel_chkpt.hpp discrete_distribution.hpp multi_channel_result.hpp',
 'D': 'mpi_plain.hpp mpi_vegas.hpp mpi_multi_channel.hpp mpi_helper.hpp mpi_callback.hpp generator_helper.hpp',
 'E': 'callback.hpp chkpt.hpp mc_helper.hpp distribution_parameters.hpp multi_channel_summary.hpp multi_channel_weight_info.hpp plain.hpp',
}[grp]
wt = '/tmp/wtb-%s' % grp
out = '/tmp/seedoutb/%s' % grp
print(f"""You are helping to evaluate a verification effort for the C++11 header-only Monte Carlo integration library cschwan/hep-mc by writing BEHAVIOUR-PRESERVING refactorings: changes a maintainer might make for readability or speed that must NOT change anything a user can observe.

Your scratch git worktree of the library is at {wt} (headers under {wt}/include/hep/mc). Work ONLY inside {wt} and write deliverables to {out}/ . Never touch /repo or /verif and do not read anything under /verif.

Produce FOUR independent refactorings (call them 1, 2, 3, 4), each touching one or two of these headers: {files}
Each refactoring must be a real code change of 5-40 lines (restructured loops, extracted helper functions, renamed locals, reordered independent statements, different but equivalent standard algorithms, early returns, const-correctness, replacing index loops by iterators, hoisting loop invariants whose hoisting does not change floating-point results, ...) and must preserve, for ALL inputs and all three numeric types (float, double, long double):
  - bit-identical numerical results (do not reassociate floating-point sums, do not replace x/y by x*(1/y), do not change the order of floating-point operations, do not change types of intermediate values),
  - identical consumption of random numbers (same number and order of std::generate_canonical calls, same discards in the MPI code),
  - identical checkpoint text (serialize output byte for byte) and identical parsing of checkpoints,
  - the same sequence and arguments of calls to the user's integrand, channel map and callback, including the laziness of the multi-channel weight/density evaluation,
  - the same MPI collectives (count, order, datatypes), the same file-system behaviour of the checkpoint writer (temporary file + rename), the same printed output,
  - the same handling of non-finite values, zero weights, empty iterations, rollback, out-of-range arguments (same exceptions).
If in doubt whether a transformation is exactly behaviour preserving, do not use it.

For each refactoring N write {out}/N/patch.diff (`git diff` against the worktree HEAD, must apply with `git apply` to a clean checkout) and {out}/N/meta.json = {{"group": "{grp}", "n": N, "summary": "<what was refactored>", "files_touched": [...], "why_behaviour_preserving": "<one or two sentences>"}}.
Build and run the library's test suite with each patch applied alone (`cd {wt} && meson setup _build >/dev/null && meson test -C _build`; all 19 tests must be OK; MPI headers are not compiled by the suite, so for them additionally compile a tiny program including "hep/mc-mpi.hpp" with `mpicxx -std=c++11 -fsyntax-only -I{wt}/include`). Reset the worktree between patches (`git checkout -- .`), leave it clean and delete {wt}/_build at the end. The machine is busy; builds may take a few minutes.

Finish with a SHORT report (max 10 lines): one line per refactoring.""")
