#!/usr/bin/env python3
"""soak.py [--tier quick|thorough] [--seeds 1,2,3] [--props C01,C02] [--out SOAK.md]: run the checks on the unchanged tree for
several VERIF_SEED values from fresh processes; every run must exit 0 without a VIOLATION line. Evidence files are not touched.
Appends a dated section to the output file."""
import json, os, subprocess, sys, time
sys.path.insert(0, '/verif/driver')
import props
def arg(n, d):
    return sys.argv[sys.argv.index(n) + 1] if n in sys.argv else d
tier = arg('--tier', 'quick')
seeds = [int(x) for x in arg('--seeds', '1,2,3,7,42,1234,99991').split(',')]
ids = arg('--props', ','.join(sorted(props.PROPS))).split(',')
out = arg('--out', '/verif/SOAK.md')
rows, bad = [], []
head = subprocess.run(['git', '-C', '/repo', 'rev-parse', '--short', 'HEAD'], stdout=subprocess.PIPE, universal_newlines=True).stdout.strip()
vh = subprocess.run(['git', '-C', '/verif', 'rev-parse', '--short', 'HEAD'], stdout=subprocess.PIPE, universal_newlines=True).stdout.strip()
for seed in seeds:
    for p in ids:
        t0 = time.time()
        env = dict(os.environ, VERIF_SEED=str(seed), VERIF_NO_EVIDENCE='1')
        r = subprocess.run(['/verif/check', p, '--tier', tier], env=env, stdout=subprocess.PIPE, stderr=subprocess.STDOUT, universal_newlines=True)
        dt = time.time() - t0
        summ = [l for l in r.stdout.splitlines() if l.startswith(p + ' tier=')]
        viol = [l for l in r.stdout.splitlines() if 'VIOLATION' in l or 'INCONCLUSIVE' in l or 'violation key' in l]
        rows.append((seed, p, r.returncode, dt, summ[-1] if summ else ''))
        print(seed, p, r.returncode, '%.0fs' % dt, viol[:2], flush=True)
        if r.returncode != 0:
            bad.append((seed, p, r.returncode, viol[:4]))
with open(out, 'a') as f:
    f.write('\n## %s tier=%s /repo@%s /verif@%s\n\n' % (time.strftime('%Y-%m-%d %H:%M'), tier, head, vh))
    f.write('seeds %s, %d runs, %d not exit 0\n\n| seed | check | exit | wall s | summary |\n|---|---|---|---|---|\n' % (seeds, len(rows), len(bad)))
    for seed, p, rc, dt, summ in rows:
        f.write('| %d | %s | %d | %.0f | %s |\n' % (seed, p, rc, dt, summ.replace('|', '/')[:160]))
    for b in bad:
        f.write('\nNOT CLEAN: %s\n' % (b,))
print('SOAK done: %d runs, %d not clean' % (len(rows), len(bad)), bad)
