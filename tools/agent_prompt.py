#!/usr/bin/env python3
"""Print the prompt handed to a mutation sub-agent for one property (only the property text + a scratch worktree)."""
import json,sys
pid=sys.argv[1]
rnd=sys.argv[2] if len(sys.argv)>2 else ''
p=[json.loads(l) for l in open('/verif/properties.jsonl') if json.loads(l)['id']==pid][0]
wt='/tmp/wt%s-%s'%(rnd,pid)
out='/tmp/seedout%s/%s'%(rnd,pid)
print(f"""You are helping to evaluate a verification effort by writing *seeded defects* for the C++11 header-only Monte Carlo integration library cschwan/hep-mc.

Your scratch git worktree of the library is at {wt} (headers under {wt}/include/hep/mc, tests under {wt}/tests, docs under {wt}/doc). Work ONLY inside {wt} and write your deliverables to {out}/ . Never touch /repo or /verif and do not read anything under /verif.

The property that must be broken:

  id: {p['id']}
  title: {p['title']}
  statement: {p['statement']}
  holds for: {p['quantifier']['text']}
  code it is anchored in: {', '.join(p['anchors']['files'])}

Task: produce TWO different, independent changes to the library (different mechanism / different place each; call them variant a and variant b) such that each one
  1. breaks the property above for some input / configuration / sequence of operations,
  2. still compiles and still passes the library's whole existing test suite (build it in your worktree: `cd {wt} && meson setup _build >/dev/null && meson test -C _build`; all 19 tests must be OK with the change applied; MPI is installed (mpicxx, `mpirun --allow-run-as-root --oversubscribe -np N`) but the suite is built without it),
  3. looks like a realistic mistake or plausible "optimisation/refactoring" a maintainer could make (a few lines; no deliberately weird code, no comments that give it away),
  4. needs something SPECIFIC to manifest - e.g. a particular interleaving or world size, a multi-step sequence of operations (save / reload / rollback / resume), an unusual but legal input (boundary value, zero weight, empty name, non-finite value, calls < ranks ...), a particular numeric type or engine, or two cooperating sites that each look fine alone. Do NOT produce a change that ordinary use would expose at once (e.g. every result being wrong by a factor 2). Prefer mechanisms a careful reviewer would still find subtle: an interaction between two features (e.g. distributions + checkpoints, MPI + early stop, rollback + resume, adaptation + non-finite values), a boundary condition, or a dependence on numeric type, engine, world size or call count.

For each variant X in {{a,b}} write into {out}/X/ :
  - patch.diff : `git diff` of the change against the worktree's HEAD (must apply with `git apply` on a clean checkout of the same commit),
  - demo.cpp : ONE self-contained C++11 program using only the public API of the library (include "hep/mc.hpp", or "hep/mc-mpi.hpp" if MPI is needed) that exits 0 when the property holds and exits non-zero (printing what it saw) when it is broken. It must exit 0 on the UNCHANGED library and non-zero with your change applied. If the unchanged library itself already violates the property for the input you first thought of, pick another input: the demo must pass on the unchanged tree.
  - meta.json : {{"property": "{p['id']}", "variant": "X", "summary": "<what the change does>", "needs_to_manifest": "<the specific input/sequence/schedule needed>", "build": "<exact compile command with {{tree}} standing for the library checkout, e.g. g++ -std=c++11 -O1 -I{{tree}}/include demo.cpp -o demo>", "run": "<exact run command, e.g. ./demo or mpirun --allow-run-as-root --oversubscribe -np 3 ./demo>", "files_touched": [...]}}
Verify everything yourself before finishing: tests pass with each patch; demo fails with the patch and passes without it (use `git stash` / `git checkout -- .` to switch). Leave the worktree clean (`git checkout -- .`) and delete {wt}/_build when you are done to save disk space.

Finish with a SHORT report (max 15 lines): per variant one line on what it changes and what it needs to manifest, and whether all verifications succeeded.""")
