#!/usr/bin/env python3
"""mkmut.py <name> <file under include/hep/mc> <old> <new> [--benign] [--count N]: write a one-replacement mutant patch
against /repo HEAD to /verif/mutants/<name>.patch (or /verif/benign/)."""
import os, subprocess, sys, tempfile, shutil
name, rel, old, new = sys.argv[1:5]
benign = '--benign' in sys.argv
nth = int(sys.argv[sys.argv.index('--nth') + 1]) if '--nth' in sys.argv else None
src = os.path.join('/repo/include/hep/mc', rel)
s = open(src).read()
old = old.encode().decode('unicode_escape'); new = new.encode().decode('unicode_escape')
n = s.count(old)
if n == 0 or (n > 1 and nth is None):
    sys.exit('pattern occurs %d times in %s (use --nth k)' % (n, rel))
if nth is None:
    t = s.replace(old, new)
else:
    parts = s.split(old); t = old.join(parts[:nth + 1]) + new + old.join(parts[nth + 1:])
d = tempfile.mkdtemp(dir='/tmp')
a = os.path.join(d, 'a/include/hep/mc'); b = os.path.join(d, 'b/include/hep/mc'); os.makedirs(a); os.makedirs(b)
open(os.path.join(a, rel), 'w').write(s); open(os.path.join(b, rel), 'w').write(t)
p = subprocess.run(['diff', '-u', 'a/include/hep/mc/' + rel, 'b/include/hep/mc/' + rel], cwd=d, stdout=subprocess.PIPE, universal_newlines=True)
out = os.path.join('/verif', 'benign' if benign else 'mutants', name + '.patch')
open(out, 'w').write(p.stdout); shutil.rmtree(d)
print('wrote', out)
