#!/usr/bin/env python3
"""benigncheck.py <dir with patch.diff meta.json> <name>: run every check whose property is anchored in a file the (behaviour
preserving) patch touches, on a scratch copy of /repo with the patch applied; all must exit 0. On success the patch is stored as
/verif/benign/<props>-<name>.patch so that `selfcheck.py --benign` re-runs it."""
import json, os, re, shutil, subprocess, sys, tempfile
d, name = os.path.abspath(sys.argv[1]), sys.argv[2]
patch = open(os.path.join(d, 'patch.diff')).read()
touched = sorted(set(re.findall(r'^\+\+\+ b/(\S+)', patch, re.M)))
props = []
for l in open('/verif/properties.jsonl'):
    p = json.loads(l)
    if any(t in p['anchors']['files'] for t in touched):
        props.append(p['id'])
scratch = tempfile.mkdtemp(prefix='ben-', dir='/tmp')
res = {}
try:
    subprocess.check_call(['git', '-C', '/repo', 'worktree', 'add', '--detach', scratch + '/wt', 'HEAD'], stdout=subprocess.DEVNULL, stderr=subprocess.DEVNULL)
    r = subprocess.run(['git', 'apply', os.path.join(d, 'patch.diff')], cwd=scratch + '/wt', stdout=subprocess.PIPE, stderr=subprocess.STDOUT, universal_newlines=True)
    if r.returncode != 0:
        print('PATCH DOES NOT APPLY', r.stdout); sys.exit(2)
    for p in props:
        env = dict(os.environ, VERIF_REPO=scratch + '/wt', VERIF_NO_EVIDENCE='1')
        r = subprocess.run(['/verif/check', p], env=env, stdout=subprocess.PIPE, stderr=subprocess.STDOUT, universal_newlines=True)
        keys = sorted(set(re.findall(r'violation key=(\S+)', r.stdout)))
        res[p] = r.returncode
        print('%s on %s: exit %d %s' % (p, name, r.returncode, ' '.join(keys)[:300]), flush=True)
        if r.returncode == 2:
            print(r.stdout[-600:])
finally:
    subprocess.call(['git', '-C', '/repo', 'worktree', 'remove', '--force', scratch + '/wt'], stdout=subprocess.DEVNULL, stderr=subprocess.DEVNULL)
    shutil.rmtree(scratch, ignore_errors=True)
bad = [p for p, rc in res.items() if rc != 0]
print('BENIGN', name, 'touched', touched, 'props', props, 'ALARMS' if bad else 'silent', bad)
if not bad and props:
    # store in the -p1 form selfcheck expects (paths relative to the scratch root that contains include/)
    out = '/verif/benign/%s-%s.patch' % ('+'.join(props), name)
    open(out, 'w').write(patch)
sys.exit(1 if bad else 0)
