#!/usr/bin/env python3
"""seedmatrix.py [names...]: run every confirmed seed in /verif/seeded against the check of its own property (if claimed)."""
import json, os, subprocess, sys
sys.path.insert(0, '/verif/driver')
import props
names = sys.argv[1:] or sorted(os.listdir('/verif/seeded'))
out = {}
for n in names:
    meta = json.load(open('/verif/seeded/%s/meta.json' % n))
    p = meta['property']
    if p not in props.PROPS:
        print(n, p, 'no check yet'); continue
    r = subprocess.run(['python3', '/verif/tools/runseed.py', n], stdout=subprocess.PIPE, stderr=subprocess.STDOUT, universal_newlines=True)
    last = [l for l in r.stdout.splitlines() if l.startswith('RESULT')]
    keys = [l.strip()[:160] for l in r.stdout.splitlines() if 'violation key=' in l][:2]
    print(n, last[-1] if last else r.stdout[-300:], keys, flush=True)
