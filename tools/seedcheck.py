#!/usr/bin/env python3
"""seedcheck.py <seed dir with patch.diff demo.cpp meta.json> [--keep-as NAME]
Confirms a seeded change independently: applies on a scratch worktree of /repo HEAD, builds + runs the
repository's own test suite there (must pass), builds the demo against the clean and the patched tree
(must pass / fail).  On success copies the seed to /verif/seeded/NAME/ and records what was run."""
import json, os, shutil, subprocess, sys, tempfile
d = os.path.abspath(sys.argv[1])
name = sys.argv[sys.argv.index('--keep-as') + 1] if '--keep-as' in sys.argv else None
meta = json.load(open(os.path.join(d, 'meta.json')))
wt = tempfile.mkdtemp(prefix='sc-', dir='/tmp'); os.rmdir(wt)
def sh(cmd, cwd=None, timeout=1800):
    p = subprocess.run(cmd, shell=True, cwd=cwd, stdout=subprocess.PIPE, stderr=subprocess.STDOUT, universal_newlines=True, timeout=timeout)
    return p.returncode, p.stdout
ran = []
ok = True
try:
    head = sh('git -C /repo rev-parse --short HEAD')[1].strip()
    rc, o = sh('git -C /repo worktree add --detach %s HEAD' % wt); assert rc == 0, o
    rc, o = sh('git apply %s/patch.diff' % d, cwd=wt)
    if rc != 0:
        rc, o = sh('git apply -3 %s/patch.diff' % d, cwd=wt)
    ran.append('git apply patch.diff on /repo@%s -> rc %d' % (head, rc))
    if rc != 0:
        print('PATCH DOES NOT APPLY', o); ok = False
    else:
        rc, o = sh('meson setup _build >/dev/null && meson test -C _build 2>&1 | tail -12', cwd=wt)
        passed = 'Ok:                 19' in o and 'Fail:               0' in o
        ran.append('meson test on patched tree -> %s' % ('19/19 OK' if passed else 'FAILED'))
        if not passed:
            print('TEST SUITE FAILS WITH PATCH\n', o); ok = False
        shutil.rmtree(os.path.join(wt, '_build'), ignore_errors=True)
        bd = tempfile.mkdtemp(prefix='scd-', dir='/tmp')
        shutil.copy(os.path.join(d, 'demo.cpp'), bd)
        for tree, want_fail in (('/repo', False), (wt, True)):
            rc, o = sh(meta['build'].replace('{tree}', tree), cwd=bd)
            if rc != 0:
                print('DEMO BUILD FAILED on', tree, o); ok = False; continue
            rc, o = sh(meta['run'], cwd=bd, timeout=600)
            ran.append('demo on %s -> exit %d' % ('clean tree' if tree == '/repo' else 'patched tree', rc))
            if (rc != 0) != want_fail:
                print('DEMO %s on %s (rc=%d)\n%s' % ('passes' if want_fail else 'fails', tree, rc, o[-1500:])); ok = False
        shutil.rmtree(bd, ignore_errors=True)
finally:
    sh('git -C /repo worktree remove --force %s' % wt)
    shutil.rmtree(wt, ignore_errors=True)
print('\n'.join(ran)); print('SEED', d, 'CONFIRMED' if ok else 'REJECTED')
if ok and name:
    dst = os.path.join('/verif/seeded', name)
    os.makedirs(dst, exist_ok=True)
    for f in ('patch.diff', 'demo.cpp'):
        shutil.copy(os.path.join(d, f), dst)
    meta['confirmed_against'] = head; meta['what_was_run'] = ran; meta['seed'] = name
    json.dump(meta, open(os.path.join(dst, 'meta.json'), 'w'), indent=1)
sys.exit(0 if ok else 1)
