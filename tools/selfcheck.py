#!/usr/bin/env python3
"""selfcheck.py [--benign] [--tier T] [name-prefix ...]: for every /verif/mutants/<Cxx>-*.patch apply it to a scratch copy of
/repo/include (outside /repo and /verif), run ./check Cxx with VERIF_REPO pointing there, and expect exit 1 (mutants) or
exit 0 (benign variants).  The property is the first three characters of the patch name; a name 'C07+C19-foo' runs several."""
import glob, json, os, re, shutil, subprocess, sys, tempfile
benign = '--benign' in sys.argv
tier = sys.argv[sys.argv.index('--tier') + 1] if '--tier' in sys.argv else 'quick'
pref = [a for a in sys.argv[1:] if not a.startswith('--') and a not in ('quick', 'thorough')]
d = '/verif/benign' if benign else '/verif/mutants'
res = {}
for p in sorted(glob.glob(d + '/*.patch')):
    name = os.path.basename(p)[:-6]
    if pref and not any(name.startswith(x) for x in pref):
        continue
    props = re.match(r'((?:C\d\d\+?)+)', name).group(1).strip('+').split('+')
    scratch = tempfile.mkdtemp(prefix='mut-', dir='/tmp')
    try:
        shutil.copytree('/repo/include', scratch + '/include')
        r = subprocess.run(['patch', '-p1', '-s', '-i', p], cwd=scratch, stdout=subprocess.PIPE, stderr=subprocess.STDOUT, universal_newlines=True)
        if r.returncode != 0:
            res[name] = 'PATCH-FAILED'; print(name, 'patch failed', r.stdout); continue
        for pr in props:
            env = dict(os.environ, VERIF_REPO=scratch, VERIF_NO_EVIDENCE='1')
            r = subprocess.run(['/verif/check', pr, '--tier', tier], env=env, stdout=subprocess.PIPE, stderr=subprocess.STDOUT, universal_newlines=True)
            keys = sorted(set(re.findall(r'violation key=(\S+)', r.stdout)))
            want = 0 if benign else 1
            ok = r.returncode == want
            res[name + ':' + pr] = ('ok' if ok else 'UNEXPECTED') + ' rc=%d' % r.returncode
            print('%-50s %s rc=%d %s' % (name + ':' + pr, 'ok ' if ok else 'UNEXPECTED', r.returncode, ' '.join(keys)[:300]), flush=True)
            if r.returncode == 2:
                print(r.stdout[-800:])
    finally:
        shutil.rmtree(scratch, ignore_errors=True)
bad = [k for k, v in res.items() if not v.startswith('ok')]
print('SELF-CHECK %s: %d run, %d unexpected %s' % ('benign' if benign else 'mutants', len(res), len(bad), bad))
sys.exit(1 if bad else 0)
