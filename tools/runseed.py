#!/usr/bin/env python3
"""runseed.py <seed name> [property ...] [--tier quick|thorough]: apply /verif/seeded/<name>/patch.diff to a scratch
worktree of /repo HEAD, run the checks for the seed's property (or the given ones) with VERIF_REPO pointing there
(evidence is NOT written: VERIF_NO_EVIDENCE), print verdicts, remove the worktree."""
import json, os, subprocess, sys, tempfile, shutil
name = sys.argv[1]
tier = sys.argv[sys.argv.index('--tier') + 1] if '--tier' in sys.argv else 'quick'
d = os.path.join('/verif/seeded', name)
if not os.path.isdir(d):
    d = name
meta = json.load(open(os.path.join(d, 'meta.json')))
props = [a for a in sys.argv[2:] if a.startswith('C') and len(a) == 3] or [meta['property']]
wt = tempfile.mkdtemp(prefix='rs-', dir='/tmp'); os.rmdir(wt)
subprocess.check_call('git -C /repo worktree add --detach %s HEAD >/dev/null 2>&1' % wt, shell=True)
res = {}
try:
    rc = subprocess.call('git apply %s/patch.diff || git apply -3 %s/patch.diff' % (d, d), shell=True, cwd=wt)
    if rc != 0:
        print('patch does not apply'); sys.exit(2)
    for p in props:
        env = dict(os.environ, VERIF_REPO=wt, VERIF_NO_EVIDENCE='1')
        r = subprocess.run(['/verif/check', p, '--tier', tier], env=env, stdout=subprocess.PIPE, stderr=subprocess.STDOUT, universal_newlines=True)
        keys = [l.strip() for l in r.stdout.splitlines() if 'violation key=' in l]
        res[p] = r.returncode
        print('== %s on seed %s: exit %d' % (p, name, r.returncode))
        for k in keys[:6]:
            print('   ', k[:300])
        if r.returncode == 2:
            print(r.stdout[-1500:])
finally:
    subprocess.call('git -C /repo worktree remove --force %s' % wt, shell=True)
    shutil.rmtree(wt, ignore_errors=True)
print('RESULT', name, json.dumps(res))
