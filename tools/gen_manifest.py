#!/usr/bin/env python3
"""Regenerate /verif/MANIFEST.json from driver/props.py and tools/claims.json (keeps it consistent)."""
import json, os, sys
V = os.path.dirname(os.path.dirname(os.path.abspath(__file__)))
sys.path.insert(0, os.path.join(V, 'driver'))
import props
claims = json.load(open(os.path.join(V, 'tools', 'claims.json')))
allp = [json.loads(l) for l in open(os.path.join(V, 'properties.jsonl'))]
checks, na = [], []
for p in allp:
    pid = p['id']
    c = claims.get(pid)
    if c and c.get('claimed') and pid in props.PROPS:
        checks.append(dict(property_id=pid, quick_cmd='./check %s --tier quick' % pid,
                           thorough_cmd='./check %s --tier thorough' % pid,
                           evidence_file='/verif/evidence/%s.json' % pid,
                           replay_cmd_template='./check %s --replay {path}' % pid,
                           engine='runtime-monitors',
                           level_claimed=dict(category=props.PROPS[pid]['level'], text=c['level_text'], design_ref=c.get('design_ref', 'DESIGN.md section 5 (%s)' % pid)),
                           level_note=c['level_note'], technique=c['technique']))
    else:
        na.append(dict(property_id=pid, reason=(c or {}).get('reason', 'check under construction (runtime monitor not yet committed)')))
m = dict(version=1,
         setup_cmd='true',
         hooks=dict(guard='HEP_MC_VERIF', enable='no source hooks are used: all instruments attach from outside (template parameters, include path order for <mpi.h>, LD_PRELOAD); checks compile their monitor programs against /repo/include on every run',
                    baseline_off_cmd='meson test -C /repo/_build', source_commits=[], add_only=True),
         engines=[dict(name='runtime-monitors', path='/verif/check', serves_properties=[c['property_id'] for c in checks],
                       kind_free_text='python driver building C++ monitor programs (ScriptEngine, CountingEngine, recording integrand/map/callback, exact-sum and long-double reference models, thread-based MPI shim, LD_PRELOAD crash-point interposer) under ASan+UBSan / TSan / valgrind')],
         checks=checks, not_applicable=na,
         notes='exit 0 = held on everything observed, 1 = VIOLATION, 2 = INCONCLUSIVE (never folded into the others). VERIF_SEED, VERIF_TIER, VERIF_REPO are honoured. See DESIGN.md.')
json.dump(m, open(os.path.join(V, 'MANIFEST.json'), 'w'), indent=1)
print('claimed:', [c['property_id'] for c in checks]); print('not claimed:', [n['property_id'] for n in na])
