// Channel maps used by the run-based monitors (DESIGN 3.3).
#ifndef VF_MCMAP_HPP
#define VF_MCMAP_HPP

#include "vf.hpp"
#include "hep/mc.hpp"

namespace vf
{

// Power-law channels on the unit cube: channel c has density prod_k (a_c+1) x_k^{a_c}; coordinates
// x_k = r_k^{1/(a_c+1)}.  Channels are asymmetric (different a_c), so adapted weights really move.
// Optional position dependent common jacobian J(x) = 1 + jac * x_0: the map returns J and writes J * p_j,
// which leaves the weight J / sum(alpha_j J p_j) unchanged (common factor).
template <typename T> struct PowerMap
{
    std::vector<T> a;
    T jac;
    T cut;      // all densities vanish for x_0 < cut (a phase-space cut): the weight is not finite there
    bool fill_all;   // write the densities of all channels, not only of the enabled ones
    PowerMap() : jac(T()), cut(T()), fill_all(false) {}
    T operator()(std::size_t channel, std::vector<T> const& rn, std::vector<T>& co, std::vector<std::size_t> const& enabled,
        std::vector<T>& dens, hep::multi_channel_map action) const
    {
        T J = T(1) + jac * co[0];
        if (action == hep::multi_channel_map::calculate_coordinates)
        {
            for (std::size_t k = 0; k < co.size(); ++k) co[k] = std::pow(rn[k], T(1) / (a[channel] + T(1)));
            return T(1) + jac * co[0];
        }
        if (fill_all)
        {
            // "the vector densities must be populated with all PDFs": also those of the disabled channels
            for (std::size_t j = 0; j < dens.size() && j < a.size(); ++j)
            {
                T p = T(1);
                for (std::size_t k = 0; k < co.size(); ++k) p *= (a[j] + T(1)) * std::pow(co[k], a[j]);
                dens[j] = (co[0] < cut) ? T() : J * p;
            }
            return J;
        }
        for (std::size_t j : enabled)
        {
            T p = T(1);
            for (std::size_t k = 0; k < co.size(); ++k) p *= (a[j] + T(1)) * std::pow(co[k], a[j]);
            dens[j] = (co[0] < cut) ? T() : J * p;
        }
        return J;
    }
};

} // namespace vf

#endif
