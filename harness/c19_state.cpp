// C19 - each iteration samples with the state derived from the previous one.
// (a) first state == user supplied / default, (b) state of result k+1 == the library's own refinement of result k
// under the checkpoint's alpha / beta / minimum weight, (c) the logged points, bins and channels of every call are
// re-derived from a private copy of the engine through reference inverse-CDF / interval rules using the state the
// result records.  Serial, resumed-through-text and shim-MPI executions.
#include "vf_main.hpp"
#include "ref.hpp"
#include "rec.hpp"
#include "mcmap.hpp"
#include "hep/mc-mpi.hpp"

typedef VF_T T;
using namespace vf;

namespace
{

typedef std::mt19937 E;

template <typename C> std::string text_of_chk(C const& c) { std::ostringstream o; c.serialize(o); return o.str(); }

struct Cfg
{
    bool vegas;
    std::size_t dims, bins, channels;
    T alpha, beta, minw;
    bool user_state;
    std::vector<T> grid, weights;
    T peak, width;
    T zero_below;      // the integrand vanishes exactly for x_0 < zero_below
    PowerMap<T> map;
};

T f_value(Cfg const& c, std::vector<T> const& x)
{
    if (x[0] < c.zero_below) return T();
    T v = T(1);
    for (T xi : x) { T z = (xi - c.peak) / c.width; v *= T(1) / (T(1) + z * z); }
    return v;
}

struct RankLog { Log<T> log; std::vector<std::size_t> calls_at_iteration_end; };

template <typename Chk> struct MarkCb
{
    RankLog* rl;
    bool operator()(Chk const&) { rl->calls_at_iteration_end.push_back(rl->log.calls.size()); return true; }
    bool operator()(MPI_Comm, Chk const&) { rl->calls_at_iteration_end.push_back(rl->log.calls.size()); return true; }
};

std::vector<T> grid_vec(hep::vegas_pdf<T> const& p)
{
    std::vector<T> g;
    for (std::size_t d = 0; d < p.dimensions(); ++d) for (std::size_t b = 0; b <= p.bins(); ++b) g.push_back(p.bin_left(d, b));
    return g;
}

bool same_vec(std::vector<T> const& a, std::vector<T> const& b)
{
    if (a.size() != b.size()) return false;
    for (std::size_t i = 0; i < a.size(); ++i) if (!same_bits(a[i], b[i])) return false;
    return true;
}

// ---- VEGAS --------------------------------------------------------------------------------------
typedef hep::vegas_chkpt_with_rng<E, T> vchk_t;
typedef hep::multi_channel_chkpt_with_rng<E, T> mchk_t;

vchk_t vegas_initial(Cfg const& c, E const& g)
{
    if (!c.user_state) return vchk_t(g, c.bins, c.alpha);
    hep::vegas_pdf<T> pdf(c.dims, c.bins);
    for (std::size_t d = 0; d < c.dims; ++d) for (std::size_t b = 0; b <= c.bins; ++b) pdf.set_bin_left(d, b, c.grid[d * (c.bins + 1) + b]);
    return vchk_t(g, pdf, c.alpha);
}

mchk_t mc_initial(Cfg const& c, E const& g)
{
    if (!c.user_state) return mchk_t(g, c.minw, c.beta);
    return mchk_t(g, c.weights, c.minw, c.beta);
}

RecIntegrand<T> make_f(Cfg const& c, Log<T>* log)
{
    RecIntegrand<T> f;
    f.log = log;
    Cfg const* cp = &c;
    f.fn = [cp](CallEv<T>& e, Access<T>&) { return f_value(*cp, e.kind == 2 ? e.coords : e.point); };
    return f;
}

// the concatenation (in rank order, per iteration) of the per-rank call logs
std::vector<CallEv<T> const*> iteration_calls(std::vector<RankLog> const& rl, std::size_t it)
{
    std::vector<CallEv<T> const*> v;
    for (auto const& r : rl)
    {
        std::size_t b = it == 0 ? 0 : r.calls_at_iteration_end[it - 1], e = r.calls_at_iteration_end[it];
        for (std::size_t i = b; i < e; ++i) v.push_back(&r.log.calls[i]);
    }
    return v;
}

template <typename Chk> void judge_vegas(Cfg const& c, Chk const& chk, std::vector<RankLog> const& rl, E gen, std::size_t first_iteration, char const* mode, J const& info)
{
    auto const& res = chk.results();
    for (std::size_t k = 0; k < res.size(); ++k)
    {
        J inf = J(info).u("iteration", k).s("mode", mode);
        std::vector<T> g = grid_vec(res[k].pdf());
        if (k == 0)
        {
            std::vector<T> want = c.user_state ? c.grid : grid_vec(hep::vegas_pdf<T>(c.dims, c.bins));
            count("first_states_checked");
            if (!same_vec(g, want)) { viol(std::string("vegas:first-iteration-not-sampled-with-") + (c.user_state ? "user-grid" : "uniform-default"), J(inf).fv("recorded", g, 16).fv("expected", want, 16)); return; }
        }
        else
        {
            std::vector<T> want = grid_vec(hep::vegas_refine_pdf(res[k - 1].pdf(), chk.alpha(), res[k - 1].adjustment_data()));
            count("state_transitions_checked");
            if (!same_vec(g, want)) { viol(std::string("vegas:state-is-not-the-refinement-of-the-previous-result:") + mode, J(inf).fv("recorded", g, 16).fv("expected", want, 16)); return; }
        }
        if (!same_bits(chk.alpha(), c.alpha)) { viol("vegas:alpha-changed", inf); return; }
    }
    // (c) points really drawn with the recorded state
    for (std::size_t k = first_iteration; k < res.size(); ++k)
    {
        std::vector<CallEv<T> const*> calls = iteration_calls(rl, k - first_iteration);
        J inf = J(info).u("iteration", k).s("mode", mode);
        if (calls.size() != res[k].calls()) { viol(std::string("calls-logged!=calls:") + mode, J(inf).u("logged", calls.size()).u("calls", res[k].calls())); return; }
        std::vector<std::vector<LD>> grid(c.dims);
        for (std::size_t d = 0; d < c.dims; ++d) for (std::size_t b = 0; b <= c.bins; ++b) grid[d].push_back(res[k].pdf().bin_left(d, b));
        for (auto const* ce : calls)
        {
            for (std::size_t d = 0; d < c.dims; ++d)
            {
                T u = std::generate_canonical<T, std::numeric_limits<T>::digits>(gen);
                std::size_t bin; LD x, w;
                vegas_icdf_ref(grid[d], u, bin, x, w);
                count("coordinates_predicted");
                LD pos = (LD)u * c.bins;
                if (std::fabs(pos - std::floor(pos + 0.5L)) < 4 * eps<T>() * (pos + 1)) { count("ambiguous_bin_edge"); continue; }
                if (ce->bin[d] != bin) { viol(std::string("vegas:point-not-drawn-with-the-recorded-grid(bin):") + mode, J(inf).u("dim", d).f("u", u).u("bin", ce->bin[d]).u("predicted", bin)); return; }
                LD width = grid[d][bin + 1] - grid[d][bin];
                if (std::fabs((LD)ce->point[d] - x) > 8 * eps<T>() * (std::fabs(x) + width * c.bins))
                { viol(std::string("vegas:point-not-drawn-with-the-recorded-grid(x):") + mode, J(inf).u("dim", d).f("u", u).f("x", ce->point[d]).f("predicted", x)); return; }
            }
        }
    }
}

template <typename Chk> void judge_mc(Cfg const& c, Chk const& chk, std::vector<RankLog> const& rl, E gen, std::size_t first_iteration, char const* mode, J const& info)
{
    auto const& res = chk.results();
    std::size_t n = c.channels;
    for (std::size_t k = 0; k < res.size(); ++k)
    {
        J inf = J(info).u("iteration", k).s("mode", mode);
        std::vector<T> const& w = res[k].channel_weights();
        if (k == 0)
        {
            std::vector<LD> user(n, 1.0L), ones(n, 1.0L), first;
            if (c.user_state) user.assign(c.weights.begin(), c.weights.end());
            count("first_states_checked");
            if (c.user_state) refine_weights_ref(user, ones, c.minw, c.beta, first); else first.assign(n, 1.0L / n);
            for (std::size_t i = 0; i < n; ++i)
                if (w.size() != n || !close_abs<T>(w[i], first[i], 16 * (n + 4), 1.0L) || ((first[i] == 0) != (w[i] == T())))
                { viol(std::string("mc:first-iteration-not-sampled-with-") + (c.user_state ? "user-weights" : "uniform-default"), J(inf).fv("recorded", w).fv("user", c.weights)); return; }
        }
        else
        {
            std::vector<T> want = hep::multi_channel_refine_weights(res[k - 1].channel_weights(), res[k - 1].adjustment_data(), chk.min_weight(), chk.beta());
            count("state_transitions_checked");
            if (!same_vec(w, want)) { viol(std::string("mc:state-is-not-the-refinement-of-the-previous-result:") + mode, J(inf).fv("recorded", w).fv("expected", want)); return; }
        }
        if (!same_bits(chk.beta(), c.beta) || !same_bits(chk.min_weight(), c.minw)) { viol("mc:beta-or-min-weight-changed", inf); return; }
    }
    for (std::size_t k = first_iteration; k < res.size(); ++k)
    {
        std::vector<CallEv<T> const*> calls = iteration_calls(rl, k - first_iteration);
        J inf = J(info).u("iteration", k).s("mode", mode);
        if (calls.size() != res[k].calls()) { viol(std::string("calls-logged!=calls:") + mode, J(inf).u("logged", calls.size()).u("calls", res[k].calls())); return; }
        std::vector<T> const& w = res[k].channel_weights();
        std::vector<LD> cum(n);
        LD s = 0, a = 0;
        for (T x : w) s += x;
        for (std::size_t i = 0; i < n; ++i) { a += w[i]; cum[i] = a / s; }
        for (auto const* ce : calls)
        {
            std::vector<T> u(c.dims);
            for (auto& x : u) x = std::generate_canonical<T, std::numeric_limits<T>::digits>(gen);
            T us = std::generate_canonical<T, std::numeric_limits<T>::digits>(gen);
            count("channels_predicted");
            if (!same_vec(ce->point, u)) { viol(std::string("mc:random-numbers-differ-from-the-engine-stream:") + mode, inf); return; }
            std::size_t ch = 0;
            while (ch + 1 < n && (LD)us >= cum[ch]) ++ch;
            bool amb = false;
            for (std::size_t i = 0; i < n; ++i) if (std::fabs((LD)us - cum[i]) <= (n + 2) * eps<T>()) amb = true;
            if (amb) { count("ambiguous_channel_boundary"); continue; }
            if (ce->channel != ch) { viol(std::string("mc:channel-not-selected-with-the-recorded-weights:") + mode, J(inf).f("u", us).u("channel", ce->channel).u("predicted", ch).fv("weights", w)); return; }
            // coordinates through the (harness') map of that channel
            std::vector<T> co(c.dims), dens(n);
            std::vector<std::size_t> en;
            c.map(ch, u, co, en, dens, hep::multi_channel_map::calculate_coordinates);
            if (!same_vec(ce->coords, co)) { viol(std::string("mc:coordinates-not-mapped-with-the-selected-channel:") + mode, inf); return; }
        }
    }
}

Cfg make_cfg(Rng& rng, bool vegas)
{
    Cfg c;
    c.vegas = vegas;
    c.dims = rng.range(1, 3);
    c.bins = rng.range(2, 16);
    c.channels = rng.range(1, 5);
    c.alpha = rng.below(3) == 0 ? T(1.5) : rng.below(4) == 0 ? T(0) : T(3 * rng.u01l());
    c.zero_below = rng.below(2) ? T() : T(0.1L + 0.6L * rng.u01l());
    c.beta = rng.below(3) == 0 ? T(0.25) : rng.below(5) == 0 ? T(0) : T(0.05L + 0.95L * rng.u01l());
    c.minw = rng.below(2) ? T() : T(rng.u01l() * 0.5L / c.channels);
    c.user_state = rng.below(2);
    for (std::size_t d = 0; d < c.dims; ++d)
    {
        std::vector<T> x(c.bins + 1);
        for (auto& v : x) v = T(rng.u01l());
        x[0] = T(0); x[c.bins] = T(1);
        std::sort(x.begin(), x.end());
        c.grid.insert(c.grid.end(), x.begin(), x.end());
    }
    c.weights.resize(c.channels);
    for (auto& w : c.weights) w = rng.below(4) ? T(rng.range(1, 20)) * T(0.7) : T();
    if (rng.below(2)) c.weights[rng.below(c.channels)] *= T(0.01);     // far below the minimum weight
    bool any = false;
    for (T w : c.weights) any = any || w != T();
    if (!any) c.weights[rng.below(c.channels)] = T(2);
    c.peak = T(0.1L + 0.8L * rng.u01l());
    c.width = T(0.02L + 0.3L * rng.u01l());
    for (std::size_t ch = 0; ch < c.channels; ++ch) c.map.a.push_back(T(rng.below(4)) * T(0.75));
    return c;
}

void run_case(Rng& rng, std::uint64_t idx)
{
    bool vegas = idx % 2 == 0;
    int mode = (idx / 2) % 5;     // 0 serial, 1 resumed through text, 2 shim MPI, 3 shim MPI continued from a checkpoint that already holds results
    Cfg c = make_cfg(rng, vegas);
    std::size_t n = rng.range(2, ctx().thorough ? 8 : 5);
    std::vector<std::size_t> calls;
    for (std::size_t i = 0; i < n; ++i) calls.push_back(rng.range(50, 500));
    E gen((unsigned)rng.next());
    static char const* modes[] = {"serial", "resumed", "mpi", "mpi-resumed", "rolled-back-and-rerun"};
    J info;
    info.s("T", tname<T>::get()).s("integrator", vegas ? "vegas" : "multi_channel").uv("calls", calls).u("dims", c.dims).u("bins", c.bins).u("channels", c.channels)
        .f("alpha", c.alpha).f("beta", c.beta).f("min_weight", c.minw).b("user_state", c.user_state).fv("user_weights", c.weights);
    ++ctx().evaluations;
    count(std::string("runs_") + modes[mode]);
    if (mode == 0 || mode == 1)
    {
        // cut 0: the initial checkpoint (never run) goes through text before the first iteration
        std::size_t cut = mode == 1 ? rng.range(0, n - 1) : n;
        if (mode == 1 && cut == 0) count("runs_started_from_a_reloaded_never-run_checkpoint");
        std::vector<std::size_t> c1(calls.begin(), calls.begin() + cut), c2(calls.begin() + cut, calls.end());
        std::vector<RankLog> rl(1), rl2(1);
        if (vegas)
        {
            RecIntegrand<T> f = make_f(c, &rl[0].log);
            MarkCb<vchk_t> cb = {&rl[0]};
            vchk_t a = hep::vegas(hep::make_integrand<T>(f, c.dims), c1, vegas_initial(c, gen), cb);
            if (mode == 0) { judge_vegas(c, a, rl, gen, 0, "serial", info); }
            else
            {
                std::istringstream in(text_of_chk(a));
                vchk_t b(in);
                RecIntegrand<T> f2 = make_f(c, &rl2[0].log);
                MarkCb<vchk_t> cb2 = {&rl2[0]};
                vchk_t r = hep::vegas(hep::make_integrand<T>(f2, c.dims), c2, b, cb2);
                judge_vegas(c, r, rl2, a.generator(), cut, "resumed", J(info).u("cut", cut));
            }
        }
        else
        {
            RecIntegrand<T> f = make_f(c, &rl[0].log);
            MarkCb<mchk_t> cb = {&rl[0]};
            mchk_t a = hep::multi_channel(hep::make_multi_channel_integrand<T>(f, c.dims, c.map, c.dims, c.channels), c1, mc_initial(c, gen), cb);
            if (mode == 0) { judge_mc(c, a, rl, gen, 0, "serial", info); }
            else
            {
                std::istringstream in(text_of_chk(a));
                mchk_t b(in);
                RecIntegrand<T> f2 = make_f(c, &rl2[0].log);
                MarkCb<mchk_t> cb2 = {&rl2[0]};
                mchk_t r = hep::multi_channel(hep::make_multi_channel_integrand<T>(f2, c.dims, c.map, c.dims, c.channels), c2, b, cb2);
                judge_mc(c, r, rl2, a.generator(), cut, "resumed", J(info).u("cut", cut));
            }
        }
    }
    else if (mode == 4)
    {
        // run, ask the checkpoint for its next state, roll back to k and run a DIFFERENT list of iterations
        std::size_t k = rng.below(n);
        std::vector<std::size_t> calls2;
        for (std::size_t i = 0; i < rng.range(2, 4); ++i) calls2.push_back(rng.range(50, 500));
        std::vector<RankLog> rl(1), rl2(1);
        J inf = J(info).u("rollback_to", k).uv("calls_after_rollback", calls2);
        if (vegas)
        {
            RecIntegrand<T> f = make_f(c, &rl[0].log);
            MarkCb<vchk_t> cb = {&rl[0]};
            bool through_text = rng.below(2);
            std::size_t cut = rng.range(1, n - 1);
            vchk_t a = vegas_initial(c, gen);
            if (through_text)
            {
                std::vector<std::size_t> c1(calls.begin(), calls.begin() + cut), c2(calls.begin() + cut, calls.end());
                vchk_t first = hep::vegas(hep::make_integrand<T>(f, c.dims), c1, vegas_initial(c, gen), cb);
                std::istringstream in(text_of_chk(first));
                vchk_t re(in);
                a = hep::vegas(hep::make_integrand<T>(f, c.dims), c2, re, cb);
                count("rollbacks_of_a_run_that_was_resumed_through_text");
            }
            else a = hep::vegas(hep::make_integrand<T>(f, c.dims), calls, vegas_initial(c, gen), cb);
            if (rng.below(2)) (void)a.pdf();
            a.rollback(k);
            RecIntegrand<T> f2 = make_f(c, &rl2[0].log);
            MarkCb<vchk_t> cb2 = {&rl2[0]};
            E g2 = a.generator();
            vchk_t r = hep::vegas(hep::make_integrand<T>(f2, c.dims), calls2, a, cb2);
            judge_vegas(c, r, rl2, g2, k, "rolled-back-and-rerun", inf);
        }
        else
        {
            RecIntegrand<T> f = make_f(c, &rl[0].log);
            MarkCb<mchk_t> cb = {&rl[0]};
            // optionally the run is interrupted, goes through text and is resumed before it is rolled back
            bool through_text = rng.below(2);
            std::size_t cut = rng.range(1, n - 1);
            mchk_t a = mc_initial(c, gen);
            if (through_text)
            {
                std::vector<std::size_t> c1(calls.begin(), calls.begin() + cut), c2(calls.begin() + cut, calls.end());
                mchk_t first = hep::multi_channel(hep::make_multi_channel_integrand<T>(f, c.dims, c.map, c.dims, c.channels), c1, mc_initial(c, gen), cb);
                std::istringstream in(text_of_chk(first));
                mchk_t re(in);
                a = hep::multi_channel(hep::make_multi_channel_integrand<T>(f, c.dims, c.map, c.dims, c.channels), c2, re, cb);
                count("rollbacks_of_a_run_that_was_resumed_through_text");
            }
            else a = hep::multi_channel(hep::make_multi_channel_integrand<T>(f, c.dims, c.map, c.dims, c.channels), calls, mc_initial(c, gen), cb);
            if (rng.below(2)) (void)a.channel_weights();
            a.rollback(k);
            RecIntegrand<T> f2 = make_f(c, &rl2[0].log);
            MarkCb<mchk_t> cb2 = {&rl2[0]};
            E g2 = a.generator();
            mchk_t r = hep::multi_channel(hep::make_multi_channel_integrand<T>(f2, c.dims, c.map, c.dims, c.channels), calls2, a, cb2);
            judge_mc(c, r, rl2, g2, k, "rolled-back-and-rerun", inf);
        }
    }
    else if (mode == 3)
    {
        // first segment on the shim, checkpoint through text, second segment on the shim again
        int P = (int)std::vector<int>{1, 2, 3}[rng.below(3)];
        std::size_t cut = rng.range(0, n - 1);
        if (cut == 0) count("runs_started_from_a_reloaded_never-run_checkpoint");
        std::vector<std::size_t> c1(calls.begin(), calls.begin() + cut), c2(calls.begin() + cut, calls.end());
        std::vector<RankLog> rl1(P), rl2(P);
        std::vector<std::string> t1(P), t2(P);
        vchk_t v1 = vegas_initial(c, gen), v2 = v1;
        mchk_t m1 = mc_initial(c, gen), m2 = m1;
        for (int phase = 0; phase < 2; ++phase)
        {
            VfWorld world;
            std::vector<RankLog>& rl = phase ? rl2 : rl1;
            std::vector<std::string>& tx = phase ? t2 : t1;
            std::string from = phase ? t1[0] : "";
            vf_mpi_run(world, P, rng.next(), [&](int rank, MPI_Comm comm) {
                RecIntegrand<T> f = make_f(c, &rl[rank].log);
                if (vegas)
                {
                    vchk_t start = vegas_initial(c, gen);
                    if (phase) { std::istringstream in(from); start = vchk_t(in); }
                    MarkCb<vchk_t> cb = {&rl[rank]};
                    vchk_t r = hep::mpi_vegas(comm, hep::make_integrand<T>(f, c.dims), phase ? c2 : c1, start, cb);
                    tx[rank] = text_of_chk(r);
                    if (rank == 0) { if (phase) v2 = r; else v1 = r; }
                }
                else
                {
                    mchk_t start = mc_initial(c, gen);
                    if (phase) { std::istringstream in(from); start = mchk_t(in); }
                    MarkCb<mchk_t> cb = {&rl[rank]};
                    mchk_t r = hep::mpi_multi_channel(comm, hep::make_multi_channel_integrand<T>(f, c.dims, c.map, c.dims, c.channels), phase ? c2 : c1, start, cb);
                    tx[rank] = text_of_chk(r);
                    if (rank == 0) { if (phase) m2 = r; else m1 = r; }
                }
            });
            J inf = J(info).u("world", P).u("cut", cut).i("phase", phase);
            if (std::uint64_t mis = vf_mpi_take_misuse()) { viol("mpi:library-used-MPI_COMM_WORLD-instead-of-the-communicator-it-was-given", J(inf).u("uses", mis)); return; }
            if (world.aborted) { viol("mpi:collective-mismatch-or-hang", J(inf).s("reason", world.abort_reason)); return; }
            for (int r = 1; r < P; ++r) if (tx[r] != tx[0]) { viol("mpi:ranks-return-different-checkpoints", J(inf).u("rank", r)); return; }
        }
        J inf = J(info).u("world", P).u("cut", cut);
        if (vegas) judge_vegas(c, v2, rl2, v1.generator(), cut, "mpi-resumed", inf); else judge_mc(c, m2, rl2, m1.generator(), cut, "mpi-resumed", inf);
    }
    else
    {
        int P = (int)std::vector<int>{2, 3, 5}[rng.below(3)];
        std::vector<RankLog> rl(P);
        VfWorld world;
        std::vector<std::string> texts(P);
        vchk_t vres = vegas_initial(c, gen);
        mchk_t mres = mc_initial(c, gen);
        vf_mpi_run(world, P, rng.next(), [&](int rank, MPI_Comm comm) {
            RecIntegrand<T> f = make_f(c, &rl[rank].log);
            if (vegas)
            {
                MarkCb<vchk_t> cb = {&rl[rank]};
                vchk_t r = hep::mpi_vegas(comm, hep::make_integrand<T>(f, c.dims), calls, vegas_initial(c, gen), cb);
                texts[rank] = text_of_chk(r);
                if (rank == 0) vres = r;
            }
            else
            {
                MarkCb<mchk_t> cb = {&rl[rank]};
                mchk_t r = hep::mpi_multi_channel(comm, hep::make_multi_channel_integrand<T>(f, c.dims, c.map, c.dims, c.channels), calls, mc_initial(c, gen), cb);
                texts[rank] = text_of_chk(r);
                if (rank == 0) mres = r;
            }
        });
        J inf = J(info).u("world", P);
        if (std::uint64_t mis = vf_mpi_take_misuse()) { viol("mpi:library-used-MPI_COMM_WORLD-instead-of-the-communicator-it-was-given", J(inf).u("uses", mis)); return; }
        if (world.aborted) { viol("mpi:collective-mismatch-or-hang", J(inf).s("reason", world.abort_reason)); return; }
        for (int r = 1; r < P; ++r) if (texts[r] != texts[0]) { viol("mpi:ranks-return-different-checkpoints", J(inf).u("rank", r)); return; }
        if (vegas) judge_vegas(c, vres, rl, gen, 0, "mpi", inf); else judge_mc(c, mres, rl, gen, 0, "mpi", inf);
    }
    nontrivial(hash_str(info.str()));
    sample(info, 6);
}

} // namespace

std::uint64_t vfh_num_cases(bool thorough) { return thorough ? 54000 : 360; }
void vfh_run_case(std::uint64_t idx, Rng& rng) { run_case(rng, idx); }
void vfh_selftest() {}
