// C17 - the integrand and the channel map are called under the documented protocol.
// Online/offline state machine over the event stream written by the recording integrand and map.
#include "vf_main.hpp"
#include "rec.hpp"
#include "mcmap.hpp"

typedef VF_T T;
using namespace vf;

namespace
{

// map that (legitimately) fills the density buffer already while computing the coordinates and only
// returns the jacobian when asked for densities; it relies on the buffers being left alone in between
struct EagerMap
{
    PowerMap<T> inner;
    bool eager;
    int coord_return = 0;     // what the coordinates call returns (documented as ignored): 0 jacobian, 1 zero, 2 NaN
    T operator()(std::size_t channel, std::vector<T> const& rn, std::vector<T>& co, std::vector<std::size_t> const& enabled, std::vector<T>& dens,
        hep::multi_channel_map action) const
    {
        if (!eager)
        {
            T r = inner(channel, rn, co, enabled, dens, action);
            if (action == hep::multi_channel_map::calculate_coordinates && coord_return == 1) return T();
            if (action == hep::multi_channel_map::calculate_coordinates && coord_return == 2) return std::numeric_limits<T>::quiet_NaN();
            return r;
        }
        if (action == hep::multi_channel_map::calculate_coordinates)
        {
            T j = inner(channel, rn, co, enabled, dens, action);
            inner(channel, rn, co, enabled, dens, hep::multi_channel_map::calculate_densities);
            return j;
        }
        return T(1) + inner.jac * co[0];
    }
};

struct Beh
{
    std::uint64_t salt;
    unsigned zero_pm, nonfinite_pm, ask_pm, add_pm;    // per mille
    bool has_dist;
};

T value_fn(Beh const& b, CallEv<T>& e, Access<T>& a)
{
    std::uint64_t h = point_hash(e.point, b.salt);
    unsigned cls = h % 1000;
    T base = T(0.5);
    for (T x : (e.kind == 2 ? e.coords : e.point)) base *= (T(0.25) + x);
    if (((h >> 40) % 1000) < b.ask_pm) (void)a.weight();
    if (b.has_dist && ((h >> 20) % 1000) < b.add_pm) a.add(0, e.point[0], base);
    if (cls < b.zero_pm) return T();
    if (cls < b.zero_pm + b.nonfinite_pm) return (h & 1) ? std::numeric_limits<T>::quiet_NaN() : std::numeric_limits<T>::infinity();
    return (h & 2) ? base : -base;
}

struct IterInfo
{
    int kind;
    std::size_t bins;
    J info;
    bool scripted;
};

bool in_half_open(T x) { return x >= T(0) && x < T(1); }

void judge_iteration(Log<T> const& log, IterInfo const& ii, std::size_t calls_expected, std::vector<T> const* weights,
    hep::vegas_pdf<T> const* pdf, bool& saw_zero, bool& saw_nonzero, bool& saw_ask)
{
    std::size_t i = 0, ncalls = 0;
    std::vector<std::size_t> E;
    if (weights) for (std::size_t c = 0; c < weights->size(); ++c) if ((*weights)[c] != T()) E.push_back(c);
    auto const& seq = log.seq;
    while (i < seq.size())
    {
        MapEv<T> const* mc = 0;
        if (ii.kind == 2)
        {
            if (seq[i].type != EV_MAP_COORD) { viol(seq[i].type == EV_MAP_DENS ? "mc:densities-requested-before-coordinates" : "mc:integrand-before-coordinates", J(ii.info).u("event", i)); return; }
            mc = &log.maps[seq[i].idx];
            ++i;
            count("map_coordinate_calls");
            if (std::find(mc->enabled.begin(), mc->enabled.end(), mc->channel) == mc->enabled.end())
                { viol("mc:channel-not-enabled", J(ii.info).u("channel", mc->channel).uv("enabled", mc->enabled)); return; }
            if (mc->enabled != E) { viol("mc:enabled-list-is-not-the-set-of-non-zero-weights", J(ii.info).uv("enabled", mc->enabled).uv("expected", E)); return; }
            if (mc->channel >= weights->size() || (*weights)[mc->channel] == T()) { viol("mc:disabled-channel-used", J(ii.info).u("channel", mc->channel)); return; }
            for (T r : mc->rn)
            {
                if (!in_half_open(r)) { viol("mc:random-number-outside-[0,1)", J(ii.info).f("r", r)); return; }
                if (r == T(0)) count("extreme_zero_coordinates");
                if (r == std::nextafter(T(1), T(0))) count("extreme_max_coordinates");
            }
            if (i >= seq.size()) { viol("mc:coordinates-without-integrand", ii.info); return; }
            if (seq[i].type == EV_MAP_DENS) { viol("mc:densities-requested-before-integrand", J(ii.info).u("call", ncalls)); return; }
            if (seq[i].type == EV_MAP_COORD) { viol("mc:coordinates-requested-twice", J(ii.info).u("call", ncalls)); return; }
        }
        if (seq[i].type != EV_INT_BEGIN) { viol("unexpected-event-instead-of-integrand", J(ii.info).i("type", seq[i].type)); return; }
        CallEv<T> const& c = log.calls[seq[i].idx];
        ++i;
        ++ncalls;
        count("calls_checked");
        // the point
        if (c.kind != ii.kind) { viol("harness:kind", ii.info); return; }
        for (std::size_t k = 0; k < c.point.size(); ++k)
        {
            T x = c.point[k];
            if (ii.kind == 1)
            {
                if (!(x >= T(0) && x <= T(1))) { viol("vegas:coordinate-outside-[0,1]", J(ii.info).f("x", x)); return; }
                if (c.bin[k] >= ii.bins) { viol("vegas:bin-index-out-of-range", J(ii.info).u("bin", c.bin[k]).u("bins", ii.bins)); return; }
                T l = pdf->bin_left(k, c.bin[k]), r = pdf->bin_left(k, c.bin[k] + 1);
                T slack = T(2) * std::numeric_limits<T>::epsilon() * std::fmax(std::fabs(l), std::fabs(r));
                // x = left + t * (right - left) with t in [0,1): never left of the bin (exactly); one rounding error of slack on the right
                if (!(x >= l)) { viol("vegas:point-left-of-reported-bin", J(ii.info).f("x", x).f("left", l).f("right", r).u("bin", c.bin[k])); return; }
                if (!(x <= r + slack)) { viol("vegas:point-not-in-reported-bin", J(ii.info).f("x", x).f("left", l).f("right", r).u("bin", c.bin[k])); return; }
                if (l == r) count("vegas_points_sampled_in_a_zero-width_bin");
            }
            else
            {
                if (!in_half_open(x)) { viol(ii.kind == 0 ? "plain:coordinate-outside-[0,1)" : "mc:point-outside-[0,1)", J(ii.info).f("x", x)); return; }
                if (ii.kind == 0 && x == T(0)) count("extreme_zero_coordinates");
                if (ii.kind == 0 && x == std::nextafter(T(1), T(0))) count("extreme_max_coordinates");
            }
        }
        if (ii.kind == 2)
        {
            if (c.channel != mc->channel) { viol("mc:point-channel-differs-from-map-channel", J(ii.info).u("point", c.channel).u("map", mc->channel)); return; }
            if (hash_vec(c.coords) != mc->co_hash_out) { viol("mc:coordinates-changed-before-integrand", ii.info); return; }
            if (hash_vec(c.point) != mc->rn_hash_in) { viol("mc:random-numbers-changed-before-integrand", ii.info); return; }
        }
        // density requests inside / after the integrand
        std::uint64_t de_expect = mc ? mc->de_hash_out : 0;
        std::size_t dens_calls = 0;
        auto check_dens = [&](MapEv<T> const& d, char const* where) -> bool {
            ++dens_calls;
            count("map_density_calls");
            if (d.channel != mc->channel) { viol("mc:densities-for-a-different-channel", J(ii.info).s("where", where).u("coordinates", mc->channel).u("densities", d.channel)); return false; }
            if (d.rn_addr != mc->rn_addr || d.co_addr != mc->co_addr || d.de_addr != mc->de_addr) { viol("mc:different-buffers-in-density-call", J(ii.info).s("where", where)); return false; }
            if (d.rn_hash_in != mc->rn_hash_in) { viol("mc:random-numbers-changed-between-map-calls", J(ii.info).s("where", where)); return false; }
            if (d.co_hash_in != mc->co_hash_out) { viol("mc:coordinates-changed-between-map-calls", J(ii.info).s("where", where)); return false; }
            if (d.de_hash_in != de_expect) { viol("mc:density-buffer-changed-between-map-calls", J(ii.info).s("where", where)); return false; }
            if (d.enabled != mc->enabled) { viol("mc:enabled-list-changed-between-map-calls", J(ii.info).s("where", where)); return false; }
            de_expect = d.de_hash_out;
            return true;
        };
        while (i < seq.size() && seq[i].type == EV_MAP_DENS)
        {
            if (!mc) { viol("density-call-without-multi-channel", ii.info); return; }
            if (!check_dens(log.maps[seq[i].idx], "inside-integrand")) return;
            ++i;
            count("density_calls_inside_integrand");
        }
        if (i >= seq.size() || seq[i].type != EV_INT_END) { viol("integrand-not-finished-or-nested", J(ii.info).u("call", ncalls)); return; }
        ++i;
        if (dens_calls && !c.asked_weight) { viol("mc:densities-inside-integrand-without-request", ii.info); return; }
        bool zero = c.value == T();
        if (zero) saw_zero = true; else saw_nonzero = true;
        if (c.asked_weight) saw_ask = true;
        if (zero) count("zero_valued_calls"); else count("non_zero_calls");
        if (c.asked_weight) count("weight_requesting_calls");
        while (i < seq.size() && seq[i].type == EV_MAP_DENS)
        {
            if (!mc) { viol("density-call-without-multi-channel", ii.info); return; }
            if (zero && !c.asked_weight)
            {
                viol("mc:densities-requested-although-value-is-zero-and-weight-not-requested", J(ii.info).u("call", ncalls));
                return;
            }
            if (!check_dens(log.maps[seq[i].idx], "after-integrand")) return;
            ++i;
            count("density_calls_after_integrand");
        }
        if (ii.kind == 2 && !zero && dens_calls == 0) { viol("mc:non-zero-value-without-density-request", J(ii.info).u("call", ncalls)); return; }
    }
    if (ncalls != calls_expected) viol("integrand-invocations!=calls", J(ii.info).u("invocations", ncalls).u("calls", calls_expected));
}

struct RunState
{
    Log<T> log;
    IterInfo ii;
    bool saw_zero = false, saw_nonzero = false, saw_ask = false;
    std::size_t iterations_seen = 0;
};

struct Cb
{
    RunState* r;
    template <typename C> bool operator()(C const& chk) { judge(chk.results().back()); return true; }
    void judge(hep::plain_result<T> const& res, std::vector<T> const* w = 0, hep::vegas_pdf<T> const* pdf = 0)
    {
        judge_iteration(r->log, r->ii, res.calls(), w, pdf, r->saw_zero, r->saw_nonzero, r->saw_ask);
        r->log.clear();
        ++r->iterations_seen;
    }
    void judge(hep::vegas_result<T> const& res) { hep::vegas_pdf<T> p = res.pdf(); judge(static_cast<hep::plain_result<T> const&>(res), 0, &p); }
    void judge(hep::multi_channel_result<T> const& res) { judge(static_cast<hep::plain_result<T> const&>(res), &res.channel_weights(), 0); }
};

template <typename Eng> void run_with(Rng& rng, Eng eng, int kind, std::size_t dims, std::vector<std::size_t> const& calls, Beh beh, RunState& st, J& info)
{
    RecIntegrand<T> f;
    f.log = &st.log;
    f.fn = [beh](CallEv<T>& e, Access<T>& a) { return value_fn(beh, e, a); };
    Cb cb = {&st};
    if (kind == 0)
    {
        typedef hep::plain_chkpt_with_rng<Eng, T> chk_t;
        if (beh.has_dist) hep::plain(hep::make_integrand<T>(f, dims, hep::make_dist_params<T>(4, T(0), T(1), "d")), calls, chk_t(eng), cb);
        else hep::plain(hep::make_integrand<T>(f, dims), calls, chk_t(eng), cb);
    }
    else if (kind == 1)
    {
        std::size_t bins = st.ii.bins;
        // uniform grid, or a user grid in which some bins have zero width (points sampled there have weight zero and are still points)
        hep::vegas_pdf<T> pdf(dims, bins);
        bool user_grid = rng.below(2);
        if (user_grid)
            for (std::size_t d = 0; d < dims; ++d)
            {
                std::vector<T> x(bins + 1);
                for (auto& v : x) v = T(rng.u01l());
                for (std::size_t i = 1; i + 1 < x.size(); ++i) if (rng.below(3) == 0) x[i] = x[i - 1];
                x[0] = T(0); x[bins] = T(1);
                std::sort(x.begin(), x.end());
                for (std::size_t b = 0; b <= bins; ++b) pdf.set_bin_left(d, b, x[b]);
            }
        info.u("bins", bins).b("user_grid_with_zero_width_bins", user_grid);
        st.ii.info = info;
        typedef hep::vegas_chkpt_with_rng<Eng, T> chk_t;
        if (beh.has_dist) hep::vegas(hep::make_integrand<T>(f, dims, hep::make_dist_params<T>(4, T(0), T(1), "d")), calls, chk_t(eng, pdf, T(1.5)), cb);
        else hep::vegas(hep::make_integrand<T>(f, dims), calls, chk_t(eng, pdf, T(1.5)), cb);
    }
    else
    {
        std::size_t channels = rng.range(1, 6);
        EagerMap em;
        for (std::size_t c = 0; c < channels; ++c) em.inner.a.push_back(T(rng.below(4)) * T(0.5));
        em.inner.jac = rng.below(2) ? T() : T(0.5);
        em.eager = rng.below(2);
        em.coord_return = (int)rng.below(3);
        std::vector<T> w(channels);
        for (auto& x : w) x = rng.below(3) ? T(rng.range(1, 9)) : T();
        bool any = false;
        for (T x : w) any = any || x != T();
        if (!any) w[rng.below(channels)] = T(1);
        info.u("channels", channels).fv("weights", w).b("eager_map", em.eager);
        st.ii.info = info;
        RecMap<T, EagerMap> map = {&st.log, em};
        typedef hep::multi_channel_chkpt_with_rng<Eng, T> chk_t;
        if (beh.has_dist)
            hep::multi_channel(hep::make_multi_channel_integrand<T>(f, dims, map, dims, channels, hep::make_dist_params<T>(4, T(0), T(1), "d")), calls,
                chk_t(eng, w, T(), T(0.25)), cb);
        else
            hep::multi_channel(hep::make_multi_channel_integrand<T>(f, dims, map, dims, channels), calls, chk_t(eng, w, T(), T(0.25)), cb);
    }
}

void run_case(Rng& rng, std::uint64_t idx)
{
    int kind = idx % 3;
    bool scripted = (idx / 3) % 4 == 0;
    std::size_t dims = rng.range(1, 3);
    std::size_t iters = rng.range(1, 3);
    std::vector<std::size_t> calls;
    for (std::size_t i = 0; i < iters; ++i) calls.push_back(rng.below(8) == 0 ? rng.below(3) : rng.range(50, 600));
    Beh beh;
    beh.salt = rng.next();
    static const unsigned zs[] = {0, 100, 500, 900, 1000};
    beh.zero_pm = zs[rng.below(5)];
    beh.nonfinite_pm = rng.below(3) == 0 ? 100 : 0;
    beh.ask_pm = rng.below(2) ? 0 : 300;
    beh.has_dist = rng.below(2);
    beh.add_pm = 400;
    RunState st;
    static char const* names[] = {"plain", "vegas", "multi_channel"};
    J info;
    info.s("T", tname<T>::get()).s("integrator", names[kind]).u("dims", dims).uv("calls", calls).u("zero_per_mille", beh.zero_pm).u("nonfinite_per_mille", beh.nonfinite_pm)
        .u("ask_weight_per_mille", beh.ask_pm).b("with_distribution", beh.has_dist).b("scripted_engine", scripted);
    st.ii.kind = kind;
    static const std::size_t odd_bins[] = {7, 37, 50, 61, 100};
    st.ii.bins = kind == 1 ? (rng.below(3) == 0 ? odd_bins[rng.below(5)] : rng.range(2, 16)) : 0;
    st.ii.scripted = scripted;
    st.ii.info = info;
    if (scripted)
    {
        auto script = std::make_shared<Script>();
        script->tail_seed = rng.next();
        std::size_t per_call = kind == 2 ? dims + 1 : dims;
        std::vector<std::uint64_t> ext = {0, ~std::uint64_t(0), 1, ~std::uint64_t(0) - 1};
        if (kind == 1)
        {
            // canonical numbers next to k/bins: u * bins may round to the integer k although u < k/bins
            for (int j = 0; j < 24; ++j)
            {
                std::size_t k = rng.range(1, st.ii.bins - 1);
                T b = T(k) / T(st.ii.bins);
                ext.push_back(raw_of((LD)std::nextafter(b, T(0))));
                ext.push_back(raw_of((LD)b));
                ext.push_back(raw_of((LD)k / st.ii.bins) - 1);
            }
            count("scripted_vegas_numbers_next_to_a_bin_edge", 72);
        }
        std::size_t total = 0;
        for (auto c : calls) total += c;
        for (std::size_t c = 0; c < total; ++c)
            for (std::size_t k = 0; k < per_call; ++k)
                script->raw.push_back((c % 3 == 0 && (c / 3) % per_call == k) ? ext[(c / (3 * per_call)) % ext.size()] : rng.next());
        ScriptEngine::current() = script;
        run_with(rng, ScriptEngine(script), kind, dims, calls, beh, st, info);
        count("scripted_runs");
    }
    else
    {
        run_with(rng, std::mt19937((unsigned)rng.next()), kind, dims, calls, beh, st, info);
        count("random_runs");
    }
    if (st.iterations_seen != calls.size()) viol("harness:callback-count", J(info).u("seen", st.iterations_seen));
    ++ctx().evaluations;
    if (st.saw_zero && st.saw_nonzero && st.saw_ask) nontrivial(hash_str(info.str()));
    sample(info, 5);
}

// hep::vegas_point constructed directly from canonical numbers including exactly 0 and exactly 1 (the documented guard;
// libstdc++ itself never returns 1): coordinates in [0,1], bin index below the bin count, bin contains the point
void vegas_point_case(Rng& rng)
{
    std::size_t dims = rng.range(1, 4), bins = rng.range(2, 64);
    hep::vegas_pdf<T> pdf(dims, bins);
    if (rng.below(2))
        for (std::size_t d = 0; d < dims; ++d)
        {
            std::vector<T> x(bins + 1);
            for (auto& v : x) v = T(rng.u01l());
            x[0] = T(0); x[bins] = T(1);
            std::sort(x.begin(), x.end());
            for (std::size_t b = 0; b <= bins; ++b) pdf.set_bin_left(d, b, x[b]);
        }
    for (int rep = 0; rep < 20; ++rep)
    {
        std::vector<T> u(dims);
        for (auto& v : u) { unsigned k = rng.below(6); v = k == 0 ? T(1) : k == 1 ? T(0) : k == 2 ? std::nextafter(T(1), T(0)) : T(rng.u01l()); }
        std::vector<T> rn = u;
        std::vector<std::size_t> bin(dims, 999999);
        hep::vegas_point<T> p(rn, bin, pdf);
        J info;
        info.s("T", tname<T>::get()).u("dims", dims).u("bins", bins).fv("u", u).fv("x", p.point()).uv("bin", p.bin()).f("weight", p.weight());
        count("vegas_points_constructed_directly");
        for (std::size_t k = 0; k < dims; ++k)
        {
            if (u[k] == T(1)) count("canonical_number_exactly_one");
            T x = p.point()[k];
            if (!(x >= T(0) && x <= T(1))) { viol("vegas:coordinate-outside-[0,1]", info); return; }
            if (p.bin()[k] >= bins) { viol(u[k] == T(1) ? "vegas:bin-index-out-of-range:u=1" : "vegas:bin-index-out-of-range", info); return; }
            T l = pdf.bin_left(k, p.bin()[k]), r = pdf.bin_left(k, p.bin()[k] + 1);
            T slack = T(2) * std::numeric_limits<T>::epsilon() * std::fmax(std::fabs(l), std::fabs(r));
            if (!(x >= l - slack && x <= r + slack)) { viol("vegas:point-not-in-reported-bin", info); return; }
        }
        if (!(p.weight() >= T(0))) { viol("vegas:negative-or-nan-weight", info); return; }
    }
    ++ctx().evaluations;
}

} // namespace

std::uint64_t vfh_num_cases(bool thorough) { return thorough ? 60000 : 360; }
void vfh_run_case(std::uint64_t idx, Rng& rng) { if (idx % 12 == 11) vegas_point_case(rng); else run_case(rng, idx); }
void vfh_selftest()
{
    auto script = std::make_shared<Script>();
    script->raw.push_back(~std::uint64_t(0));
    script->raw.push_back(0);
    ScriptEngine e(script);
    T a = std::generate_canonical<T, std::numeric_limits<T>::digits>(e), b = std::generate_canonical<T, std::numeric_limits<T>::digits>(e);
    if (!(a == std::nextafter(T(1), T(0))) || b != T(0)) inconclusive("ScriptEngine self-test failed");
}
