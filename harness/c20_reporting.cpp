// C20 - reporting never changes or breaks a run.
// (a) differential over the four callback modes (serial), (b) robustness of the summary printers over reachable
// and constructed states, (c) shim-MPI: output and files on rank 0 only, same checkpoints in all modes.
#include "vf_main.hpp"
#include "hist.hpp"
#include "hep/mc-mpi.hpp"

#include <unistd.h>

typedef VF_T T;
using namespace vf;

namespace
{

typedef std::mt19937 E;

hep::callback_mode mode_of(int m)
{
    static const hep::callback_mode modes[] = {hep::callback_mode::silent, hep::callback_mode::silent_and_write_chkpt, hep::callback_mode::verbose,
        hep::callback_mode::verbose_and_write_chkpt};
    return modes[m];
}
char const* mode_name(int m)
{
    static char const* n[] = {"silent", "silent_and_write_chkpt", "verbose", "verbose_and_write_chkpt"};
    return n[m];
}

// integrand classes (value transformation applied on top of the flavour's integrand)
int g_cls = 0;
std::uint64_t g_calls = 0;

template <typename T2> struct ClsIntegrand
{
    HistCfg<T2> const* c;
    template <typename P> T2 operator()(P const& p) const { return apply(HistIntegrand<T2>{c}(p)); }
    template <typename P> T2 operator()(P const& p, hep::projector<T2>& pr) const { return apply(HistIntegrand<T2>{c}(p, pr)); }
    static T2 apply(T2 v)
    {
        ++g_calls;
        switch (g_cls)
        {
        case 1: return T2();
        case 2: return T2(1.25);
        case 3: return (g_calls % 7 == 0) ? std::numeric_limits<T2>::quiet_NaN() : v;
        case 4: return std::numeric_limits<T2>::infinity();
        default: return v;
        }
    }
};

static char const* cls_names[] = {"ordinary", "zero", "constant", "non-finite-sometimes", "non-finite-everywhere"};

template <typename Chk> struct Rec
{
    hep::callback<Chk> inner;
    std::vector<std::string>* texts;
    bool operator()(Chk const& c)
    {
        bool more = inner(c);
        texts->push_back(text_of(c));
        return more;
    }
};

// flavour runs with the class-transformed integrand (same shapes as hist.hpp)
template <int F> struct ClsRun;
template <> struct ClsRun<0>
{
    template <typename C, typename Cb> static C run(HistCfg<T> const& c, C const& chk, std::vector<std::size_t> const& calls, Cb cb)
    {
        ClsIntegrand<T> f = {&c};
        return hep::plain(hep::make_integrand<T>(f, c.dims, hep::make_dist_params<T>(5, T(0), T(1), c.name1), hep::distribution_parameters<T>(3, 2, T(0), T(1), T(0), T(1), c.name2)), calls, chk, cb);
    }
};
template <> struct ClsRun<1>
{
    template <typename C, typename Cb> static C run(HistCfg<T> const& c, C const& chk, std::vector<std::size_t> const& calls, Cb cb)
    {
        ClsIntegrand<T> f = {&c};
        return hep::vegas(hep::make_integrand<T>(f, c.dims, hep::make_dist_params<T>(5, T(0), T(1), c.name1), hep::distribution_parameters<T>(3, 2, T(0), T(1), T(0), T(1), c.name2)), calls, chk, cb);
    }
};
template <> struct ClsRun<3>
{
    template <typename C, typename Cb> static C run(HistCfg<T> const& c, C const& chk, std::vector<std::size_t> const& calls, Cb cb)
    {
        ClsIntegrand<T> f = {&c};
        return hep::multi_channel(hep::make_multi_channel_integrand<T>(f, c.dims, hist_map(c), c.dims, c.channels), calls, chk, cb);
    }
};
template <> struct ClsRun<4>
{
    template <typename C, typename Cb> static C run(HistCfg<T> const& c, C const& chk, std::vector<std::size_t> const& calls, Cb cb)
    {
        ClsIntegrand<T> f = {&c};
        return hep::multi_channel(hep::make_multi_channel_integrand<T>(f, c.dims, hist_map(c), c.dims, c.channels,
            hep::make_dist_params<T>(5, T(0), T(1), c.name1), hep::distribution_parameters<T>(3, 2, T(0), T(1), T(0), T(1), c.name2)), calls, chk, cb);
    }
};

struct ModeOut { std::vector<std::string> per_iteration; std::string final_text, printed, file; bool threw = false; std::string what; };

// run flavour F in mode m
template <int F> void run_mode(HistCfg<T> const& cfg, std::vector<std::size_t> const& calls, E const& gen, int m, T target, std::string const& fname, ModeOut& o)
{
    typedef Flavour<F, T, E> Fl;
    typedef typename Fl::chk_t chk_t;
    CoutSilencer quiet;
    g_calls = 0;
    try
    {
        Rec<chk_t> cb = {hep::callback<chk_t>(mode_of(m), fname, target), &o.per_iteration};
        chk_t r = ClsRun<F>::run(cfg, Fl::initial(cfg, gen), calls, cb);
        o.final_text = text_of(r);
    }
    catch (std::exception const& e) { o.threw = true; o.what = e.what(); }
    o.printed = quiet.sink.str();
    std::ifstream in(fname);
    if (in) { std::ostringstream s; s << in.rdbuf(); o.file = s.str(); }
}

std::size_t count_blocks(std::string const& s)
{
    std::size_t n = 0, p = 0;
    while ((p = s.find(" finished.", p)) != std::string::npos) { ++n; ++p; }
    return n;
}

template <int F> void modes_case(Rng& rng, std::uint64_t idx)
{
    typedef Flavour<F, T, E> Fl;
    HistCfg<T> cfg = make_hist_cfg<T>(rng);
    if (F >= 3) cfg.channels = rng.below(3) == 0 ? rng.range(12, 60) : rng.range(1, 6);
    if (F == 4)
    {
        cfg.weights.assign(cfg.channels, T(1));
        unsigned wk = rng.below(4);
        if (wk == 1) for (std::size_t i = 1; i < cfg.channels; ++i) cfg.weights[i] = T(1e-4);      // all but one minimal
        if (wk == 2) for (std::size_t i = 0; i < cfg.channels; ++i) cfg.weights[i] = (i % 2) ? T(3) : T(1);   // two groups
        if (wk == 3) for (std::size_t i = 0; i < cfg.channels; ++i) if (i % 3 == 1) cfg.weights[i] = T();     // disabled channels
        bool any = false;
        for (T w : cfg.weights) any = any || w != T();
        if (!any) cfg.weights[0] = T(1);
    }
    std::size_t n = rng.range(1, 5);
    std::vector<std::size_t> calls;
    for (std::size_t i = 0; i < n; ++i) calls.push_back(rng.below(6) == 0 ? rng.range(1, 3) : rng.range(50, 500));
    g_cls = rng.below(5);
    E gen((unsigned)rng.next());
    T target = rng.below(3) == 0 ? T(0.02L + 0.2L * rng.u01l()) : T();
    J info;
    info.s("T", tname<T>::get()).s("flavour", Fl::name()).s("integrand", cls_names[g_cls]).uv("calls", calls).f("target", target).u("channels", cfg.channels).u("dims", cfg.dims);
    ModeOut out[4];
    char fname[128];
    for (int m = 0; m < 4; ++m)
    {
        std::snprintf(fname, sizeof fname, "c20_%d_%llu_%d.chkpt", (int)getpid(), (unsigned long long)idx, m);
        ::unlink(fname);
        run_mode<F>(cfg, calls, gen, m, target, fname, out[m]);
        ::unlink(fname);
        ::unlink((std::string(fname) + ".tmp").c_str());
    }
    ++ctx().evaluations;
    count(std::string("mode_quadruples_") + Fl::name());
    count(std::string("integrand_") + cls_names[g_cls]);
    for (int m = 0; m < 4; ++m)
    {
        J inf = J(info).s("mode", mode_name(m));
        if (out[m].threw) { viol(std::string("exception-in-mode:") + mode_name(m) + ":" + Fl::name(), J(inf).s("what", out[m].what)); return; }
        if (m == 0) continue;
        if (out[m].per_iteration.size() != out[0].per_iteration.size())
        {
            viol(std::string("modes-perform-different-numbers-of-iterations:") + mode_name(m), J(inf).u("iterations", out[m].per_iteration.size()).u("silent", out[0].per_iteration.size()));
            return;
        }
        for (std::size_t k = 0; k < out[0].per_iteration.size(); ++k)
            if (out[m].per_iteration[k] != out[0].per_iteration[k]) { viol(std::string("checkpoint-handed-to-callback-differs-between-modes:") + mode_name(m), J(inf).u("iteration", k)); return; }
        if (out[m].final_text != out[0].final_text) { viol(std::string("returned-checkpoint-differs-between-modes:") + mode_name(m), inf); return; }
    }
    // what the modes are supposed to do besides
    for (int m = 0; m < 4; ++m)
    {
        bool verbose = m >= 2, writes = m == 1 || m == 3;
        std::size_t blocks = count_blocks(out[m].printed);
        if (verbose && blocks != out[m].per_iteration.size()) viol("verbose-mode-did-not-print-every-iteration", J(info).s("mode", mode_name(m)).u("blocks", blocks));
        if (!verbose && !out[m].printed.empty()) viol("silent-mode-printed", J(info).s("mode", mode_name(m)));
        if (writes && !out[m].per_iteration.empty() && out[m].file != out[m].final_text) viol("written-file-is-not-the-returned-checkpoint", J(info).s("mode", mode_name(m)));
        if (!writes && !out[m].file.empty()) viol("non-writing-mode-wrote-a-file", J(info).s("mode", mode_name(m)));
    }
    nontrivial(hash_str(info.str()));
    sample(info, 5);
}

// ---- (b) summary printers on constructed states -------------------------------------------------
void summary_case(Rng& rng)
{
    std::size_t n = rng.below(4) == 0 ? rng.range(1, 3) : rng.range(1, 60);
    std::vector<T> w(n), d(n);
    unsigned kind = rng.below(6);
    for (std::size_t i = 0; i < n; ++i)
    {
        switch (kind)
        {
        case 0: w[i] = T(1) / T(n); break;                                         // all equal
        case 1: w[i] = i == 0 ? T(1) : T(1e-5); break;                             // all but one minimal
        case 2: w[i] = (i % 2) ? T(3) : T(1); break;                               // two groups
        case 3: w[i] = (i % 3 == 1) ? T() : T(1 + rng.below(5)); break;            // disabled channels
        case 4: w[i] = T(rng.u01l()); break;
        default: w[i] = T(i + 1); break;                                           // all different, sorted
        }
        d[i] = rng.below(4) == 0 ? T() : T(rng.u01l() * 100);
    }
    LD s = 0;
    for (T x : w) s += x;
    if (!(s > 0)) { w[0] = T(1); s = 1; }
    for (auto& x : w) x = T((LD)x / s);
    if (rng.below(8) == 0) d.assign(n, T());                                       // after an all-zero iteration
    static const std::size_t cs[] = {0, 1, 2, 10, 1000, 1000000};
    std::size_t calls = cs[rng.below(6)];
    hep::multi_channel_result<T> res(hep::plain_result<T>(std::vector<hep::distribution_result<T>>(), calls, calls / 2, calls / 2, T(1.5), T(4)), d, w);
    typedef hep::multi_channel_chkpt_with_rng<E, T> chk_t;
    chk_t chk(E(), T(), T(0.25));
    chk.channels(n);
    chk.add(res, E());
    J info;
    info.s("T", tname<T>::get()).u("channels", n).i("weights_kind", kind).u("calls", calls).fv("weights", w, 12);
    ++ctx().evaluations;
    count("summaries_printed");
    try
    {
        std::ostringstream out;
        hep::multi_channel_summary(chk, out);
        std::string txt = out.str();
        if (txt.find("summary of a-priori weights") == std::string::npos) viol("summary:output-missing", info);
        hep::multi_channel_weight_info<T> wi(res);
        if (wi.channels().size() != n || wi.weights().size() != n || wi.calls().size() != n) viol("weight_info:sizes", info);
        // channels() is a permutation sorted by weight
        std::vector<std::size_t> perm = wi.channels();
        std::sort(perm.begin(), perm.end());
        for (std::size_t i = 0; i < n; ++i) if (perm[i] != i) { viol("weight_info:channels-not-a-permutation", info); break; }
        for (std::size_t i = 1; i < n; ++i) if (wi.weights()[i] < wi.weights()[i - 1]) { viol("weight_info:weights-not-sorted", info); break; }
        if (wi.minimal_weight_count() < 1 || wi.minimal_weight_count() > n) viol("weight_info:minimal-weight-count-out-of-range", J(info).u("count", wi.minimal_weight_count()));
        T md = hep::multi_channel_max_difference(res);
        T ref = T();
        for (std::size_t i = 0; i < n; ++i) for (std::size_t j = i + 1; j < n; ++j) ref = std::fmax(ref, std::fabs(d[i] - d[j]));
        if (!(md == ref)) viol("max_difference:value", J(info).f("got", md).f("expected", ref));
        // every printed channel index is a valid channel
        std::size_t p = 0;
        while ((p = txt.find("in channel #", p)) != std::string::npos)
        {
            p += 12;
            std::size_t ch = std::strtoul(txt.c_str() + p, 0, 10);
            if (ch >= n) { viol("summary:prints-invalid-channel", J(info).u("channel", ch)); break; }
        }
    }
    catch (std::exception const& e)
    {
        viol(std::string("summary:exception:") + typeid(e).name(), J(info).s("what", e.what()));
    }
    // make_list_of_ranges: expanding the ranges gives the indices back
    {
        std::vector<std::size_t> idx;
        std::size_t v = rng.below(3);
        std::size_t m = rng.below(12);
        for (std::size_t i = 0; i < m; ++i) { idx.push_back(v); v += rng.below(3) == 0 ? rng.range(2, 5) : 1; }
        std::string r = hep::make_list_of_ranges(idx);
        std::vector<std::size_t> back;
        std::size_t p = 0;
        bool ok = true;
        while (p < r.size())
        {
            char* end;
            std::size_t a = std::strtoul(r.c_str() + p, &end, 10), b = a;
            p = end - r.c_str();
            if (p < r.size() && r[p] == '-') { b = std::strtoul(r.c_str() + p + 1, &end, 10); p = end - r.c_str(); }
            if (b < a) { ok = false; break; }
            for (std::size_t x = a; x <= b; ++x) back.push_back(x);
            if (p < r.size()) { if (r[p] != ',') { ok = false; break; } ++p; }
        }
        count("range_lists_checked");
        if (!ok || back != idx) viol("make_list_of_ranges:wrong", J().uv("indices", idx).s("ranges", r));
    }
    nontrivial(hash_str(info.str()));
}

// ---- (c) shim MPI ----------------------------------------------------------------------------------
struct RankOut { std::string final_text; std::size_t iterations = 0; };

void mpi_case(Rng& rng, std::uint64_t idx)
{
    int integ = rng.below(3);
    int P = (int)std::vector<int>{1, 2, 5}[rng.below(3)];
    HistCfg<T> cfg = make_hist_cfg<T>(rng);
    std::size_t n = rng.range(1, 4);
    std::vector<std::size_t> calls;
    for (std::size_t i = 0; i < n; ++i) calls.push_back(rng.range(50, 400));
    g_cls = 0;
    std::uint32_t eseed = (std::uint32_t)rng.next();
    std::uint64_t wseed = rng.next();
    T target = rng.below(3) == 0 ? T(0.02L + 0.2L * rng.u01l()) : T();
    static char const* names[] = {"mpi_plain", "mpi_vegas", "mpi_multi_channel"};
    J info;
    info.s("T", tname<T>::get()).s("integrator", names[integ]).u("world", P).uv("calls", calls).f("target", target);
    std::string ref_text;
    ++ctx().evaluations;
    count("mpi_mode_quadruples");
    for (int m = 0; m < 4; ++m)
    {
        std::vector<RankOut> out(P);
        char base[128];
        std::snprintf(base, sizeof base, "c20m_%d_%llu_%d", (int)getpid(), (unsigned long long)idx, m);
        for (int r = 0; r < P; ++r) ::unlink((std::string(base) + "." + std::to_string(r)).c_str());
        VfWorld world;
        std::string printed;
        {
            CoutSilencer quiet;
            vf_mpi_run(world, P, wseed, [&](int rank, MPI_Comm comm) {
                std::string fname = std::string(base) + "." + std::to_string(rank);
                HistIntegrand<T> f = {&cfg};
                if (integ == 0)
                {
                    typedef hep::plain_chkpt_with_rng<E, T> C;
                    C r = hep::mpi_plain(comm, hep::make_integrand<T>(f, cfg.dims), calls, C(E(eseed)), hep::mpi_callback<C>(mode_of(m), fname, target));
                    out[rank].final_text = text_of(r); out[rank].iterations = r.results().size();
                }
                else if (integ == 1)
                {
                    typedef hep::vegas_chkpt_with_rng<E, T> C;
                    C r = hep::mpi_vegas(comm, hep::make_integrand<T>(f, cfg.dims), calls, C(E(eseed), cfg.bins, cfg.alpha), hep::mpi_callback<C>(mode_of(m), fname, target));
                    out[rank].final_text = text_of(r); out[rank].iterations = r.results().size();
                }
                else
                {
                    typedef hep::multi_channel_chkpt_with_rng<E, T> C;
                    C r = hep::mpi_multi_channel(comm, hep::make_multi_channel_integrand<T>(f, cfg.dims, hist_map(cfg), cfg.dims, cfg.channels), calls,
                        C(E(eseed), cfg.min_weight, cfg.beta), hep::mpi_callback<C>(mode_of(m), fname, target));
                    out[rank].final_text = text_of(r); out[rank].iterations = r.results().size();
                }
            });
            printed = quiet.sink.str();
        }
        J inf = J(info).s("mode", mode_name(m));
        bool bad = false;
        if (std::uint64_t mis = vf_mpi_take_misuse()) { viol("mpi:library-used-MPI_COMM_WORLD-instead-of-the-communicator-it-was-given", J(inf).u("uses", mis)); bad = true; }
        if (world.aborted) { viol(std::string("mpi:ranks-disagree-or-hang-in-mode:") + mode_name(m), J(inf).s("reason", world.abort_reason)); bad = true; }
        for (int r = 0; r < P && !bad; ++r)
        {
            if (out[r].final_text != out[0].final_text) { viol(std::string("mpi:ranks-return-different-checkpoints:") + mode_name(m), J(inf).u("rank", r)); bad = true; }
            std::string fn = std::string(base) + "." + std::to_string(r);
            std::ifstream in(fn);
            bool exists = (bool)in;
            bool writes = m == 1 || m == 3;
            if (r > 0 && exists) { viol("mpi:non-root-rank-wrote-a-checkpoint-file", J(inf).u("rank", r)); bad = true; }
            if (r == 0 && writes && !exists && out[0].iterations > 0) { viol("mpi:root-did-not-write-the-checkpoint-file", inf); bad = true; }
            if (r == 0 && !writes && exists) { viol("mpi:non-writing-mode-wrote-a-file", inf); bad = true; }
            if (r == 0 && writes && exists) { std::ostringstream s; s << in.rdbuf(); if (s.str() != out[0].final_text) { viol("mpi:written-file-is-not-the-returned-checkpoint", inf); bad = true; } }
            ::unlink(fn.c_str());
            ::unlink((fn + ".tmp").c_str());
        }
        if (bad) return;
        std::size_t blocks = count_blocks(printed);
        bool verbose = m >= 2;
        if (verbose && blocks != out[0].iterations) { viol("mpi:output-blocks!=iterations(rank-0-only)", J(inf).u("blocks", blocks).u("iterations", out[0].iterations)); return; }
        if (!verbose && !printed.empty()) { viol("mpi:silent-mode-printed", inf); return; }
        if (m == 0) ref_text = out[0].final_text;
        else if (out[0].final_text != ref_text) { viol(std::string("mpi:returned-checkpoint-differs-between-modes:") + mode_name(m), inf); return; }
    }
    if (P >= 2) nontrivial(hash_str(info.str()));
}

} // namespace

std::uint64_t vfh_num_cases(bool thorough) { return thorough ? 36000 : 400; }

void vfh_run_case(std::uint64_t idx, Rng& rng)
{
    switch (idx % 8)
    {
    case 0: modes_case<0>(rng, idx); break;
    case 1: modes_case<1>(rng, idx); break;
    case 2: modes_case<3>(rng, idx); break;
    case 3: modes_case<4>(rng, idx); break;
    case 4: mpi_case(rng, idx); break;
    default: for (int i = 0; i < 20; ++i) summary_case(rng); break;
    }
}

void vfh_selftest() {}
