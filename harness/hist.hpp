// Checkpoint flavours and history operations shared by the C03 / C15 / C19 / C20 monitors (DESIGN 3.5).
#ifndef VF_HIST_HPP
#define VF_HIST_HPP

#include "vf.hpp"
#include "mcmap.hpp"
#include "hep/mc.hpp"

#include <fstream>
#include <iostream>

namespace vf
{

struct CoutSilencer
{
    std::ostringstream sink;
    std::streambuf* old;
    CoutSilencer() : old(std::cout.rdbuf(sink.rdbuf())) {}
    ~CoutSilencer() { std::cout.rdbuf(old); }
};

template <typename C> inline std::string text_of(C const& c)
{
    std::ostringstream o;
    c.serialize(o);
    return o.str();
}

// parameters of one configuration (chosen by the harness' Rng)
template <typename T> struct HistCfg
{
    std::size_t dims = 2, bins = 8, channels = 3;
    T alpha = T(1.5), beta = T(0.25), min_weight = T();
    std::vector<T> grid;        // user grid (dims * (bins + 1)), flavour 2
    std::vector<T> weights;     // user weights, flavour 4
    std::string name1 = "d1", name2 = "two words";
    std::size_t dbins = 5;      // binning of the first distribution and of the x axis of the second
    T dmin = T(0), dmax = T(1);
    T peak = T(0.3), width = T(0.1);
};

template <typename T> inline T hist_f_value(HistCfg<T> const& c, std::vector<T> const& x)
{
    T v = T(1);
    for (T xi : x) { T z = (xi - c.peak) / c.width; v *= T(1) / (T(1) + z * z); }
    return v + T(0.01);
}

template <typename T> struct HistIntegrand
{
    HistCfg<T> const* c;
    template <typename P> T operator()(P const& p) const { return hist_f_value(*c, coords(p)); }
    template <typename P> T operator()(P const& p, hep::projector<T>& pr) const
    {
        std::vector<T> const& x = coords(p);
        T v = hist_f_value(*c, x);
        T px = c->dmin + x[0] * (c->dmax - c->dmin);
        pr.add(0, px, v);
        pr.add(1, px, x[x.size() - 1], v);
        return v;
    }
    static std::vector<T> const& coords(hep::mc_point<T> const& p) { return p.point(); }
    static std::vector<T> const& coords(hep::multi_channel_point<T> const& p) { return p.coordinates(); }
};

// F: 0 PLAIN (with two distributions), 1 VEGAS default grid (with distributions), 2 VEGAS user grid,
//    3 multi-channel default weights, 4 multi-channel user weights with disabled channels (with distributions)
template <int F, typename T, typename E> struct Flavour;

template <typename T, typename E> struct Flavour<0, T, E>
{
    typedef hep::plain_chkpt_with_rng<E, T> chk_t;
    static char const* name() { return "plain+dists"; }
    static chk_t initial(HistCfg<T> const&, E const& g) { return chk_t(g); }
    template <typename Cb> static chk_t run(HistCfg<T> const& c, chk_t const& chk, std::vector<std::size_t> const& calls, Cb cb)
    {
        HistIntegrand<T> f = {&c};
        return hep::plain(hep::make_integrand<T>(f, c.dims, hep::make_dist_params<T>(c.dbins, c.dmin, c.dmax, c.name1),
            hep::distribution_parameters<T>(3, 2, c.dmin, c.dmax, T(0), T(1), c.name2)), calls, chk, cb);
    }
};

template <typename T, typename E> struct Flavour<1, T, E>
{
    typedef hep::vegas_chkpt_with_rng<E, T> chk_t;
    static char const* name() { return "vegas-default+dists"; }
    static chk_t initial(HistCfg<T> const& c, E const& g) { return chk_t(g, c.bins, c.alpha); }
    template <typename Cb> static chk_t run(HistCfg<T> const& c, chk_t const& chk, std::vector<std::size_t> const& calls, Cb cb)
    {
        HistIntegrand<T> f = {&c};
        return hep::vegas(hep::make_integrand<T>(f, c.dims, hep::make_dist_params<T>(c.dbins, c.dmin, c.dmax, c.name1),
            hep::distribution_parameters<T>(3, 2, c.dmin, c.dmax, T(0), T(1), c.name2)), calls, chk, cb);
    }
};

template <typename T, typename E> struct Flavour<2, T, E>
{
    typedef hep::vegas_chkpt_with_rng<E, T> chk_t;
    static char const* name() { return "vegas-user-grid"; }
    static chk_t initial(HistCfg<T> const& c, E const& g)
    {
        hep::vegas_pdf<T> pdf(c.dims, c.bins);
        for (std::size_t d = 0; d < c.dims; ++d) for (std::size_t b = 0; b <= c.bins; ++b) pdf.set_bin_left(d, b, c.grid[d * (c.bins + 1) + b]);
        return chk_t(g, pdf, c.alpha);
    }
    template <typename Cb> static chk_t run(HistCfg<T> const& c, chk_t const& chk, std::vector<std::size_t> const& calls, Cb cb)
    {
        HistIntegrand<T> f = {&c};
        return hep::vegas(hep::make_integrand<T>(f, c.dims), calls, chk, cb);
    }
};

template <typename T> inline PowerMap<T> hist_map(HistCfg<T> const& c)
{
    PowerMap<T> pm;
    for (std::size_t ch = 0; ch < c.channels; ++ch) pm.a.push_back(T(ch) * T(0.75));
    return pm;
}

template <typename T, typename E> struct Flavour<3, T, E>
{
    typedef hep::multi_channel_chkpt_with_rng<E, T> chk_t;
    static char const* name() { return "mc-default"; }
    static chk_t initial(HistCfg<T> const& c, E const& g) { return chk_t(g, c.min_weight, c.beta); }
    template <typename Cb> static chk_t run(HistCfg<T> const& c, chk_t const& chk, std::vector<std::size_t> const& calls, Cb cb)
    {
        HistIntegrand<T> f = {&c};
        return hep::multi_channel(hep::make_multi_channel_integrand<T>(f, c.dims, hist_map(c), c.dims, c.channels), calls, chk, cb);
    }
};

template <typename T, typename E> struct Flavour<4, T, E>
{
    typedef hep::multi_channel_chkpt_with_rng<E, T> chk_t;
    static char const* name() { return "mc-user-weights+dists"; }
    static chk_t initial(HistCfg<T> const& c, E const& g) { return chk_t(g, c.weights, c.min_weight, c.beta); }
    template <typename Cb> static chk_t run(HistCfg<T> const& c, chk_t const& chk, std::vector<std::size_t> const& calls, Cb cb)
    {
        HistIntegrand<T> f = {&c};
        return hep::multi_channel(hep::make_multi_channel_integrand<T>(f, c.dims, hist_map(c), c.dims, c.channels,
            hep::make_dist_params<T>(c.dbins, c.dmin, c.dmax, c.name1), hep::distribution_parameters<T>(3, 2, c.dmin, c.dmax, T(0), T(1), c.name2)), calls, chk, cb);
    }
};

template <typename T> inline HistCfg<T> make_hist_cfg(Rng& rng)
{
    HistCfg<T> c;
    c.dims = rng.range(1, 3);
    c.bins = rng.range(2, 12);
    c.channels = rng.range(2, 4);
    c.alpha = rng.below(2) ? T(1.5) : T(0.2L + 2.5L * rng.u01l());
    c.beta = rng.below(2) ? T(0.25) : T(0.05L + 0.9L * rng.u01l());
    c.min_weight = rng.below(2) ? T() : T(0.01L + 0.05L * rng.u01l());
    c.peak = T(0.1L + 0.8L * rng.u01l());
    c.width = T(0.02L + 0.2L * rng.u01l());
    for (std::size_t d = 0; d < c.dims; ++d)
    {
        std::vector<T> x(c.bins + 1);
        for (auto& v : x) v = T(rng.u01l());
        x[0] = T(0); x[c.bins] = T(1);
        std::sort(x.begin(), x.end());
        c.grid.insert(c.grid.end(), x.begin(), x.end());
    }
    c.weights.resize(c.channels);
    for (auto& w : c.weights) w = T(rng.range(1, 9)) * T(0.3);
    if (rng.below(2)) c.weights[rng.below(c.channels)] *= T(0.02);      // a weight far below the minimum weight (gets clamped)
    c.weights[rng.below(c.channels)] = T();
    bool any = false;
    for (T w : c.weights) any = any || w != T();
    if (!any) c.weights[0] = T(1);
    static char const* names[] = {"d1", "two words", "", " ", "  lead", "trail  ", "#x", "12 3", "E_{\\nu} [GeV]", "\\n", "a\\b"};
    c.name1 = names[rng.below(11)];
    c.name2 = rng.below(8) == 0 ? std::string(300, 'n') : std::string(names[rng.below(11)]);
    // binning: the unit range with 5 bins, or a one-decimal range with 3..9 bins (bin sizes that are not exact in binary)
    if (rng.below(2))
    {
        c.dbins = rng.range(3, 9);
        c.dmin = T(rng.range(0, 40)) / T(10) - T(2);
        c.dmax = c.dmin + T(rng.range(1, 30)) / T(10);
        if (rng.below(2))
        {
            // a binning whose bin size is not reproduced by (min + bins*size - min)/bins in T: any format that stores a derived quantity
            // instead of the bin size drifts on such a range
            for (int tries = 0; tries < 40000; ++tries)
            {
                std::size_t b = rng.range(3, 9);
                T lo, hi;
                if (tries % 2) { lo = T(rng.range(0, 40)) / T(10); hi = T(rng.range(1, 60)) / T(10); }
                else { lo = T((long double)rng.below(100000) / 100000.0L); hi = lo + T((long double)rng.range(1, 100000) / 10000.0L); }
                if (!(hi > lo)) continue;
                volatile T size = (hi - lo) / T(b);
                volatile T top = lo + T(b) * size;
                volatile T size2 = (top - lo) / T(b);
                volatile T top2 = lo + T(b) * size2;
                // prefer ranges where even the recomputed upper end moves (a second save would then write a different text)
                if (size2 != size && (top2 != top || tries > 30000)) { c.dbins = b; c.dmin = lo; c.dmax = hi; count("binnings_whose_bin_size_is_not_recomputable_from_the_range"); break; }
            }
        }
    }
    return c;
}

} // namespace vf

#endif
