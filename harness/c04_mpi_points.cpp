// C04 - MPI runs sample the same points as the serial run for every world size.
// The three MPI integrators run on the thread-based MPI shim (seeded arrival and reduction orders); for every
// iteration the serial *_iteration is re-run from the generator before that iteration and the state recorded in
// the result, and the union of the per-rank point logs is compared with the serial point log.
#include "vf_main.hpp"
#include "rec.hpp"
#include "mcmap.hpp"
#include "hep/mc-mpi.hpp"

typedef VF_T T;
using namespace vf;

#ifndef VF_ENG
#define VF_ENG std::mt19937
#define VF_ENG_NAME "mt19937"
#endif
typedef VF_ENG E;

namespace
{

struct Cfg
{
    int integ;
    std::size_t dims, bins, channels;
    bool dist;
    std::uint64_t salt;
    PowerMap<T> map;
    T target;
};

T value_fn(Cfg const& c, CallEv<T>& e, Access<T>& a)
{
    std::uint64_t h = point_hash(e.point, c.salt);
    T v = T(0.5);
    for (T x : (e.kind == 2 ? e.coords : e.point)) v *= T(0.3) + x * x;
    if (c.dist) { a.add(0, e.point[0], v); if (h % 3) a.add(1, e.point[e.point.size() - 1] * e.point[0], T(2) * v); }
    if (h % 7 == 0) return T();
    if (h % 41 == 0) return std::numeric_limits<T>::quiet_NaN();
    return ((h & 8) || c.target > T()) ? v : -v;     // with a target the integrand keeps one sign so that the target can be reached
}

// sortable, bit-exact signature of one call
struct PointSig
{
    std::vector<std::uint64_t> k;
    bool operator<(PointSig const& o) const { return k < o.k; }
    bool operator==(PointSig const& o) const { return k == o.k; }
};

PointSig sig_of(CallEv<T> const& e)
{
    PointSig s;
    for (T x : e.point) s.k.push_back(bits_hash(x));
    for (std::size_t b : e.bin) s.k.push_back(b + 1000003);
    s.k.push_back(e.channel + 7000001);
    for (T x : e.coords) s.k.push_back(bits_hash(x));
    return s;
}

struct RankOut
{
    Log<T> log;
    std::vector<std::size_t> calls_at_end;
    std::vector<std::string> gens_after;       // text of chk.generator() after each iteration
    std::string final_text;
};

template <typename Chk> struct Cb
{
    RankOut* o;
    hep::mpi_callback<Chk> inner;
    bool operator()(MPI_Comm comm, Chk const& chk)
    {
        o->calls_at_end.push_back(o->log.calls.size());
        o->gens_after.push_back(to_text(chk.generator()));
        return inner(comm, chk);
    }
};

template <typename C> std::string text_of_chk(C const& c) { std::ostringstream o; c.serialize(o); return o.str(); }

RecIntegrand<T> make_f(Cfg const& c, Log<T>* log)
{
    RecIntegrand<T> f;
    f.log = log;
    Cfg const* cp = &c;
    f.fn = [cp](CallEv<T>& e, Access<T>& a) { return value_fn(*cp, e, a); };
    return f;
}

// serial re-execution of iteration k
hep::plain_result<T> serial_iteration(Cfg const& c, std::size_t calls, E& gen, Log<T>* log, hep::vegas_pdf<T> const* pdf, std::vector<T> const* weights,
    std::vector<T>* adjustment)
{
    RecIntegrand<T> f = make_f(c, log);
    hep::distribution_parameters<T> dp = hep::make_dist_params<T>(6, T(0), T(1), "d");
    hep::distribution_parameters<T> dp2 = hep::make_dist_params<T>(9, T(0), T(0.7), "second");
    if (c.integ == 0) return c.dist ? hep::plain_iteration(hep::make_integrand<T>(f, c.dims, dp, dp2), calls, gen) : hep::plain_iteration(hep::make_integrand<T>(f, c.dims), calls, gen);
    if (c.integ == 1)
    {
        hep::vegas_result<T> r = c.dist ? hep::vegas_iteration(hep::make_integrand<T>(f, c.dims, dp, dp2), calls, *pdf, gen) : hep::vegas_iteration(hep::make_integrand<T>(f, c.dims), calls, *pdf, gen);
        *adjustment = r.adjustment_data();
        return r;
    }
    if (c.dist)
    {
        auto integrand = hep::make_multi_channel_integrand<T>(f, c.dims, c.map, c.dims, c.channels, dp, dp2);
        hep::multi_channel_result<T> r = hep::multi_channel_iteration(integrand, calls, *weights, gen);
        *adjustment = r.adjustment_data();
        return r;
    }
    auto integrand = hep::make_multi_channel_integrand<T>(f, c.dims, c.map, c.dims, c.channels);
    hep::multi_channel_result<T> r = hep::multi_channel_iteration(integrand, calls, *weights, gen);
    *adjustment = r.adjustment_data();
    return r;
}

bool close_sum(T a, T b, std::size_t n, LD sumabs) { return close_abs<T>(a, b, n, sumabs) || (std::isnan(a) && std::isnan(b)); }

// compare result k of the MPI run with the serial re-execution
void judge_iteration(Cfg const& c, hep::plain_result<T> const& mpi, std::vector<T> const& mpi_adj, hep::plain_result<T> const& ser, std::vector<T> const& ser_adj,
    std::vector<CallEv<T> const*> const& mpi_calls, Log<T> const& ser_log, int P, J const& info)
{
    std::size_t N = ser.calls();
    count("iterations_compared");
    if (mpi.calls() != ser.calls() || mpi.non_zero_calls() != ser.non_zero_calls() || mpi.finite_calls() != ser.finite_calls())
    { viol("counters-differ-from-serial", J(info).u("mpi_calls", mpi.calls()).u("mpi_nz", mpi.non_zero_calls()).u("mpi_finite", mpi.finite_calls()).u("serial_nz", ser.non_zero_calls()).u("serial_finite", ser.finite_calls())); return; }
    if (mpi_calls.size() != ser_log.calls.size()) { viol("number-of-evaluated-points-differs-from-serial", J(info).u("mpi", mpi_calls.size()).u("serial", ser_log.calls.size())); return; }
    std::vector<PointSig> a, b;
    for (auto const* e : mpi_calls) a.push_back(sig_of(*e));
    for (auto const& e : ser_log.calls) b.push_back(sig_of(e));
    std::sort(a.begin(), a.end());
    std::sort(b.begin(), b.end());
    count("points_compared", a.size());
    if (!(a == b)) { viol("multiset-of-points-differs-from-serial", info); return; }
    // sums up to reassociation
    LD sa = 0, sa2 = 0;
    for (auto const& e : ser_log.calls) { (void)e; }
    sa = std::fabs((LD)ser.sum()) + std::sqrt((LD)N * std::fabs((LD)ser.sum_of_squares()));   // >= sum |terms| (Cauchy-Schwarz)
    sa2 = std::fabs((LD)ser.sum_of_squares());
    if (!close_sum(mpi.sum(), ser.sum(), N + P + 4, sa)) { viol("sum-differs-beyond-reassociation", J(info).f("mpi", mpi.sum()).f("serial", ser.sum())); return; }
    if (!close_sum(mpi.sum_of_squares(), ser.sum_of_squares(), N + P + 4, sa2)) { viol("sum-of-squares-differs-beyond-reassociation", J(info).f("mpi", mpi.sum_of_squares()).f("serial", ser.sum_of_squares())); return; }
    if (mpi_adj.size() != ser_adj.size()) { viol("adjustment-data-size-differs", info); return; }
    for (std::size_t i = 0; i < ser_adj.size(); ++i)
        if (!close_sum(mpi_adj[i], ser_adj[i], N + P + 4, std::fabs((LD)ser_adj[i]))) { viol("adjustment-data-differs-beyond-reassociation", J(info).u("index", i).f("mpi", mpi_adj[i]).f("serial", ser_adj[i])); return; }
    if (mpi.distributions().size() != ser.distributions().size()) { viol("distribution-count-differs", info); return; }
    for (std::size_t d = 0; d < ser.distributions().size(); ++d)
    {
        auto const& mb = mpi.distributions()[d].results();
        auto const& sb = ser.distributions()[d].results();
        if (mb.size() != sb.size()) { viol("bin-count-differs", info); return; }
        for (std::size_t i = 0; i < sb.size(); ++i)
        {
            count("bins_compared");
            if (mb[i].calls() != sb[i].calls() || mb[i].non_zero_calls() != sb[i].non_zero_calls() || mb[i].finite_calls() != sb[i].finite_calls())
            { viol("bin-counters-differ-from-serial", J(info).u("bin", i).u("mpi_calls", mb[i].calls()).u("serial_calls", sb[i].calls()).u("mpi_finite", mb[i].finite_calls()).u("serial_finite", sb[i].finite_calls())); return; }
            LD bs = std::fabs((LD)sb[i].sum()) + std::sqrt((LD)N * std::fabs((LD)sb[i].sum_of_squares()));
            if (!close_sum(mb[i].sum(), sb[i].sum(), N + P + 4, bs) || !close_sum(mb[i].sum_of_squares(), sb[i].sum_of_squares(), N + P + 4, std::fabs((LD)sb[i].sum_of_squares())))
            { viol("bin-sums-differ-beyond-reassociation", J(info).u("bin", i).f("mpi", mb[i].sum()).f("serial", sb[i].sum())); return; }
        }
    }
}

void run_case(Rng& rng, std::uint64_t idx)
{
    Cfg c;
    c.integ = idx % 3;
    c.dims = rng.range(1, 3);
    c.bins = rng.range(2, 8);
    c.channels = rng.below(4) == 0 ? 1 : rng.range(2, 4);
    c.dist = rng.below(2);
    c.salt = rng.next();
    for (std::size_t ch = 0; ch < c.channels; ++ch) c.map.a.push_back(T(ch) * T(0.75));
    static const int quickP[] = {1, 2, 3, 4, 7, 16, 33};
    int P = ctx().thorough ? (int)rng.range(1, 33) : quickP[rng.below(7)];
    std::uint64_t p = P;
    std::vector<std::size_t> pool = {0, 1, p - 1, p, p + 1, 2 * p + 1, 97, 101, 1000, 13};
    std::size_t n = rng.range(1, 4);
    std::vector<std::size_t> calls;
    for (std::size_t i = 0; i < n; ++i) calls.push_back(pool[rng.below(pool.size())]);
    c.target = rng.below(4) == 0 ? T(0.02L + 0.2L * rng.u01l()) : T();
    E gen0;
    gen0.discard(rng.below(3000));
    std::uint64_t wseed = rng.next();
    static char const* names[] = {"mpi_plain", "mpi_vegas", "mpi_multi_channel"};
    J info;
    info.s("T", tname<T>::get()).s("engine", VF_ENG_NAME).s("integrator", names[c.integ]).u("world", P).uv("calls", calls).u("dims", c.dims).b("distribution", c.dist)
        .u("channels", c.channels).f("target", c.target);
    std::vector<RankOut> out(P);
    VfWorld world;
    typedef hep::plain_chkpt_with_rng<E, T> PC;
    typedef hep::vegas_chkpt_with_rng<E, T> VC;
    typedef hep::multi_channel_chkpt_with_rng<E, T> MC;
    PC pres(gen0);
    VC vres(gen0, c.bins, T(1.5));
    MC mres(gen0, T(0.01), T(0.25));
    hep::distribution_parameters<T> dp = hep::make_dist_params<T>(6, T(0), T(1), "d");
    hep::distribution_parameters<T> dp2 = hep::make_dist_params<T>(9, T(0), T(0.7), "second");
    vf_mpi_run(world, P, wseed, [&](int rank, MPI_Comm comm) {
        RecIntegrand<T> f = make_f(c, &out[rank].log);
        if (c.integ == 0)
        {
            Cb<PC> cb = {&out[rank], hep::mpi_callback<PC>(hep::callback_mode::silent, "", c.target)};
            PC r = c.dist ? hep::mpi_plain(comm, hep::make_integrand<T>(f, c.dims, dp, dp2), calls, PC(gen0), cb) : hep::mpi_plain(comm, hep::make_integrand<T>(f, c.dims), calls, PC(gen0), cb);
            out[rank].final_text = text_of_chk(r);
            if (rank == 0) pres = r;
        }
        else if (c.integ == 1)
        {
            Cb<VC> cb = {&out[rank], hep::mpi_callback<VC>(hep::callback_mode::silent, "", c.target)};
            VC r = c.dist ? hep::mpi_vegas(comm, hep::make_integrand<T>(f, c.dims, dp, dp2), calls, VC(gen0, c.bins, T(1.5)), cb)
                          : hep::mpi_vegas(comm, hep::make_integrand<T>(f, c.dims), calls, VC(gen0, c.bins, T(1.5)), cb);
            out[rank].final_text = text_of_chk(r);
            if (rank == 0) vres = r;
        }
        else
        {
            Cb<MC> cb = {&out[rank], hep::mpi_callback<MC>(hep::callback_mode::silent, "", c.target)};
            MC r = c.dist ? hep::mpi_multi_channel(comm, hep::make_multi_channel_integrand<T>(f, c.dims, c.map, c.dims, c.channels, dp, dp2), calls, MC(gen0, T(0.01), T(0.25)), cb)
                          : hep::mpi_multi_channel(comm, hep::make_multi_channel_integrand<T>(f, c.dims, c.map, c.dims, c.channels), calls, MC(gen0, T(0.01), T(0.25)), cb);
            out[rank].final_text = text_of_chk(r);
            if (rank == 0) mres = r;
        }
    });
    ++ctx().evaluations;
    count(std::string("runs_") + names[c.integ]);
    if (std::uint64_t m = vf_mpi_take_misuse()) { viol(std::string("library-used-MPI_COMM_WORLD-instead-of-the-communicator-it-was-given:") + names[c.integ], J(info).u("uses", m)); return; }
    count("collectives_checked", world.collectives);
    count("distinct_schedules_in_run", world.schedules.size());
    if (world.aborted) { viol(std::string("collective-mismatch-or-hang:") + names[c.integ], J(info).s("reason", world.abort_reason)); return; }
    for (int r = 1; r < P; ++r)
    {
        if (out[r].final_text != out[0].final_text) { viol("ranks-return-different-checkpoints", J(info).u("rank", r)); return; }
        if (world.log[r].size() != world.log[0].size()) { viol("ranks-executed-different-numbers-of-collectives", J(info).u("rank", r)); return; }
        for (std::size_t i = 0; i < world.log[0].size(); ++i)
            if (world.log[r][i].count != world.log[0][i].count || world.log[r][i].type != world.log[0][i].type) { viol("ranks-executed-different-collective-sequences", J(info).u("rank", r).u("collective", i)); return; }
        if (out[r].gens_after != out[0].gens_after) { viol("ranks-store-different-generators", J(info).u("rank", r)); return; }
    }
    std::size_t done = out[0].calls_at_end.size();
    if (c.target == T() && done != n) { viol("iterations-performed", J(info).u("done", done)); return; }
    if (done < n) count("runs_stopped_early_by_target");
    E gen = gen0;
    for (std::size_t k = 0; k < done; ++k)
    {
        J inf = J(info).u("iteration", k);
        std::vector<CallEv<T> const*> mcalls;
        for (int r = 0; r < P; ++r)
        {
            std::size_t b = k == 0 ? 0 : out[r].calls_at_end[k - 1], e = out[r].calls_at_end[k];
            std::size_t want = calls[k] / P + ((std::size_t)r < calls[k] % P ? 1 : 0);
            (void)want;
            for (std::size_t i = b; i < e; ++i) mcalls.push_back(&out[r].log.calls[i]);
        }
        Log<T> slog;
        std::vector<T> sadj, madj;
        E before = gen;
        hep::vegas_pdf<T> pdf(c.dims, c.bins);
        std::vector<T> w;
        hep::plain_result<T> const* mp = 0;
        if (c.integ == 0) mp = &pres.results()[k];
        if (c.integ == 1) { mp = &vres.results()[k]; pdf = vres.results()[k].pdf(); madj = vres.results()[k].adjustment_data(); }
        if (c.integ == 2) { mp = &mres.results()[k]; w = mres.results()[k].channel_weights(); madj = mres.results()[k].adjustment_data(); }
        hep::plain_result<T> ser = serial_iteration(c, calls[k], gen, &slog, &pdf, &w, &sadj);
        judge_iteration(c, *mp, madj, ser, sadj, mcalls, slog, P, inf);
        // the generator stored after the iteration is the serial generator after the iteration
        if (to_text(gen) != out[0].gens_after[k]) { viol(std::string("stored-generator-differs-from-serial:") + names[c.integ], inf); return; }
        (void)before;
    }
    bool nontriv = false;
    for (std::size_t k = 0; k < done; ++k) if (P >= 2 && (calls[k] % P != 0 || calls[k] < (std::size_t)P)) nontriv = true;
    if (nontriv) nontrivial(hash_str(info.str()));
    sample(J(info).u("collectives", world.collectives).u("schedules", world.schedules.size()), 5);
}

// an iteration with more calls than a float can count exactly (2^24): the counters are reduced as integers and must
// stay exact (no recording here, the integrand is trivial)
T trivial_f(hep::mc_point<T> const& p) { return T(0.5) + p.point()[0]; }

void big_count_case(Rng& rng)
{
    int P = (int)rng.range(2, 3);
    std::size_t N = (std::size_t(1) << 24) + 5 + 2 * rng.below(4);     // odd: not representable in float
    std::vector<std::size_t> nz(P), fin(P), cl(P);
    VfWorld world;
    typedef hep::plain_chkpt_with_rng<std::minstd_rand, T> C;
    struct Go { bool operator()(MPI_Comm, C const&) const { return true; } };
    vf_mpi_run(world, P, rng.next(), [&](int rank, MPI_Comm comm) {
        C r = hep::mpi_plain(comm, hep::make_integrand<T>(trivial_f, 1), std::vector<std::size_t>(1, N), C(std::minstd_rand()), Go());
        nz[rank] = r.results()[0].non_zero_calls(); fin[rank] = r.results()[0].finite_calls(); cl[rank] = r.results()[0].calls();
    });
    ++ctx().evaluations;
    count("iterations_with_more_than_2^24_calls");
    J info;
    info.s("T", tname<T>::get()).u("world", P).u("calls", N);
    if (world.aborted) { viol("collective-mismatch-or-hang:mpi_plain", J(info).s("reason", world.abort_reason)); return; }
    for (int r = 0; r < P; ++r)
        if (nz[r] != N || fin[r] != N || cl[r] != N) { viol("counters-differ-from-serial:large-iteration", J(info).u("rank", r).u("non_zero_calls", nz[r]).u("finite_calls", fin[r]).u("calls", cl[r])); return; }
    nontrivial(hash_str(info.str()));
}

} // namespace

std::uint64_t vfh_num_cases(bool thorough) { return thorough ? 2400 : 150; }
void vfh_run_case(std::uint64_t idx, Rng& rng)
{
    if (idx == 149 && std::is_same<T, float>::value) { big_count_case(rng); return; }
    run_case(rng, idx);
}
void vfh_selftest() {}
