// Common instruments for the hep-mc runtime monitors (see DESIGN.md section 3).
// C++11 only.  Everything here lives in /verif; nothing is added to /repo.
#ifndef VF_HPP
#define VF_HPP

#include <algorithm>
#include <cfloat>
#include <cinttypes>
#include <cmath>
#include <cstdint>
#include <cstdio>
#include <cstdlib>
#include <cstring>
#include <istream>
#include <limits>
#include <map>
#include <memory>
#include <ostream>
#include <set>
#include <sstream>
#include <string>
#include <vector>

namespace vf
{

typedef long double LD;

// ------------------------------------------------------------------------------------------------
// deterministic PRNG for the harness' own choices (never used by the library under test)
// ------------------------------------------------------------------------------------------------
inline std::uint64_t splitmix(std::uint64_t& s)
{
    std::uint64_t z = (s += 0x9e3779b97f4a7c15ULL);
    z = (z ^ (z >> 30)) * 0xbf58476d1ce4e5b9ULL;
    z = (z ^ (z >> 27)) * 0x94d049bb133111ebULL;
    return z ^ (z >> 31);
}

inline std::uint64_t mix(std::uint64_t a, std::uint64_t b)
{
    std::uint64_t s = a * 0x9e3779b97f4a7c15ULL + b + 0x632be59bd9b4e019ULL;
    splitmix(s);
    return splitmix(s);
}

struct Rng
{
    std::uint64_t s;
    // optional byte source (libFuzzer input): decisions are read from it while it lasts, so that coverage-guided
    // mutation steers the generators; afterwards the seeded stream continues
    unsigned char const* src = 0;
    std::size_t src_len = 0, src_pos = 0;
    explicit Rng(std::uint64_t seed = 1) : s(seed) {}
    std::uint64_t next()
    {
        if (src && src_pos + 8 <= src_len)
        {
            std::uint64_t v;
            std::memcpy(&v, src + src_pos, 8);
            src_pos += 8;
            return v;
        }
        return splitmix(s);
    }
    // uniform in [0, n)
    std::uint64_t below(std::uint64_t n) { return n == 0 ? 0 : next() % n; }
    // uniform in [lo, hi]
    std::uint64_t range(std::uint64_t lo, std::uint64_t hi) { return lo + below(hi - lo + 1); }
    bool coin() { return (next() >> 17) & 1; }
    // uniform double in [0,1)
    double u01() { return double(next() >> 11) * (1.0 / 9007199254740992.0); }
    long double u01l() { return (long double)(next()) * (1.0L / 18446744073709551616.0L); }
    template <typename V> typename V::value_type pick(V const& v) { return v[below(v.size())]; }
};

// ------------------------------------------------------------------------------------------------
// type helpers
// ------------------------------------------------------------------------------------------------
template <typename T> struct tname;
template <> struct tname<float> { static const char* get() { return "float"; } };
template <> struct tname<double> { static const char* get() { return "double"; } };
template <> struct tname<long double> { static const char* get() { return "long double"; } };

template <typename T> inline long double eps() { return std::numeric_limits<T>::epsilon(); }

// hash of the value representation (long double: 10 significant bytes)
template <typename T> inline std::uint64_t bits_hash(T v)
{
    unsigned char b[16];
    std::memset(b, 0, sizeof b);
    std::size_t n = sizeof(T) == 16 ? 10 : sizeof(T);
    std::memcpy(b, &v, n);
    std::uint64_t lo, hi;
    std::memcpy(&lo, b, 8);
    std::memcpy(&hi, b + 8, 8);
    return mix(lo, hi);
}

template <typename T> inline bool same_bits(T a, T b)
{
    std::size_t n = sizeof(T) == 16 ? 10 : sizeof(T);
    return std::memcmp(&a, &b, n) == 0;
}

template <typename T> inline std::string fmt(T v)
{
    char buf[128];
    std::snprintf(buf, sizeof buf, "%.21Lg(%La)", (long double)v, (long double)v);
    return buf;
}

// |a-b| <= k * eps_T * scale   (scale >= 0; NaN never close unless both NaN and allow_nan)
template <typename T>
inline bool close_abs(long double a, long double b, long double k, long double scale)
{
    if (std::isnan(a) || std::isnan(b)) return false;
    if (a == b) return true;
    long double tol = k * eps<T>() * scale + (long double)std::numeric_limits<T>::denorm_min();
    return std::fabs(a - b) <= tol;
}

template <typename T> inline bool close_rel(long double a, long double b, long double k)
{
    return close_abs<T>(a, b, k, std::fmax(std::fabs(a), std::fabs(b)));
}

// ------------------------------------------------------------------------------------------------
// tiny JSON builder
// ------------------------------------------------------------------------------------------------
inline std::string jesc(std::string const& s)
{
    std::string o;
    for (unsigned char c : s)
    {
        if (c == '"' || c == '\\') { o += '\\'; o += char(c); }
        else if (c == '\n') o += "\\n";
        else if (c == '\t') o += "\\t";
        else if (c < 0x20 || c >= 0x7f) { char b[8]; std::snprintf(b, sizeof b, "\\u%04x", c); o += b; }
        else o += char(c);
    }
    return o;
}

class J
{
public:
    J& s(char const* k, std::string const& v) { key(k); o_ += '"' + jesc(v) + '"'; return *this; }
    J& u(char const* k, std::uint64_t v) { key(k); o_ += std::to_string(v); return *this; }
    J& i(char const* k, long long v) { key(k); o_ += std::to_string(v); return *this; }
    J& b(char const* k, bool v) { key(k); o_ += v ? "true" : "false"; return *this; }
    template <typename T> J& f(char const* k, T v) { return s(k, fmt(v)); }
    J& raw(char const* k, std::string const& v) { key(k); o_ += v; return *this; }
    template <typename T> J& fv(char const* k, std::vector<T> const& v, std::size_t maxn = 40)
    {
        std::string a = "[";
        for (std::size_t i = 0; i < v.size() && i < maxn; ++i)
        {
            if (i) a += ',';
            char buf[64];
            std::snprintf(buf, sizeof buf, "\"%.21Lg\"", (long double)v[i]);
            a += buf;
        }
        if (v.size() > maxn) a += ",\"...(" + std::to_string(v.size()) + ")\"";
        a += "]";
        return raw(k, a);
    }
    template <typename T> J& uv(char const* k, std::vector<T> const& v, std::size_t maxn = 40)
    {
        std::string a = "[";
        for (std::size_t i = 0; i < v.size() && i < maxn; ++i)
        {
            if (i) a += ',';
            a += std::to_string((unsigned long long)v[i]);
        }
        if (v.size() > maxn) a += ",\"...(" + std::to_string(v.size()) + ")\"";
        a += "]";
        return raw(k, a);
    }
    std::string str() const { return "{" + o_ + "}"; }
private:
    void key(char const* k) { if (!o_.empty()) o_ += ','; o_ += '"'; o_ += k; o_ += "\":"; }
    std::string o_;
};

// ------------------------------------------------------------------------------------------------
// run context: arguments, counters, violation sink
// ------------------------------------------------------------------------------------------------
struct Ctx
{
    std::uint64_t seed = 1;
    bool thorough = false;
    std::uint64_t shard = 0, nshards = 1;
    long long only_case = -1;
    std::string sigfile;
    std::string variant;
    std::uint64_t cur_case = 0;
    std::uint64_t evaluations = 0;
    std::uint64_t violations = 0;
    std::map<std::string, std::uint64_t> counters;
    std::map<std::string, std::uint64_t> viol_per_key;
    std::set<std::uint64_t> sigs;
    std::vector<std::string> samples;
};

inline Ctx& ctx()
{
    static Ctx c;
    return c;
}

// breadcrumb: the harness describes the input it is about to hand to the library; printed by the sanitizer error
// callback (vf_main.hpp) so that a fatal report carries its witness
inline std::string& breadcrumb()
{
    static std::string b;
    return b;
}

inline void count(std::string const& name, std::uint64_t add = 1) { ctx().counters[name] += add; }

inline void viol(std::string const& key, J const& detail)
{
    Ctx& c = ctx();
    ++c.violations;
    std::uint64_t n = ++c.viol_per_key[key];
    if (n <= 3)
    {
        std::printf("{\"t\":\"viol\",\"key\":\"%s\",\"case\":%" PRIu64 ",\"variant\":\"%s\",\"detail\":%s}\n",
            jesc(key).c_str(), c.cur_case, jesc(c.variant).c_str(), detail.str().c_str());
        std::fflush(stdout);
    }
}

// a case that satisfies the property's non-triviality rule; sig identifies it by content
inline void nontrivial(std::uint64_t sig) { ctx().sigs.insert(sig); }

inline void sample(J const& j, std::size_t keep = 3)
{
    Ctx& c = ctx();
    if (c.samples.size() < keep) c.samples.push_back(j.str());
}

inline void inconclusive(std::string const& why)
{
    std::printf("{\"t\":\"inconclusive\",\"why\":\"%s\"}\n", jesc(why).c_str());
    std::fflush(stdout);
    std::exit(3);
}

// ------------------------------------------------------------------------------------------------
// exact summation (Shewchuk expansions in long double; x87 extended arithmetic has no double rounding)
// ------------------------------------------------------------------------------------------------
class ExactSum
{
public:
    void add(long double x)
    {
        if (x == 0.0L) return;
        std::size_t i = 0;
        for (std::size_t k = 0; k < p_.size(); ++k)
        {
            long double y = p_[k];
            if (std::fabs(x) < std::fabs(y)) std::swap(x, y);
            volatile long double hi = x + y;
            volatile long double t = hi - x;
            long double lo = y - t;
            if (lo != 0.0L) p_[i++] = lo;
            x = hi;
        }
        p_.resize(i);
        p_.push_back(x);
    }
    void merge(ExactSum const& o) { for (long double x : o.p_) add(x); }
    // correctly rounded-ish (error < 1 ulp of long double) value of the exact sum
    long double value() const
    {
        long double s = 0.0L;
        for (std::size_t k = 0; k < p_.size(); ++k) s += p_[k]; // partials are non-overlapping, increasing
        // sum from the largest downwards for a faithful result
        long double r = 0.0L;
        for (std::size_t k = p_.size(); k-- > 0;) r += p_[k];
        (void)s;
        return r;
    }
private:
    std::vector<long double> p_;
};

// thread-local totals of raw draws / discards (fed by CountingEngine and ScriptEngine)
struct DrawLog
{
    std::uint64_t draws = 0;
    std::uint64_t discarded = 0;
    std::uint64_t discard_calls = 0;
};

inline DrawLog& drawlog()
{
    static thread_local DrawLog l;
    return l;
}

// ------------------------------------------------------------------------------------------------
// ScriptEngine: 64-bit range engine replaying prepared raw outputs (DESIGN 3.2).
// libstdc++ generate_canonical<T,digits> takes exactly one draw from it and returns T(raw)/2^64
// (clamped below 1); a start-up self-test (script_selftest) verifies that on the running toolchain.
// ------------------------------------------------------------------------------------------------
struct Script
{
    std::vector<std::uint64_t> raw;
    std::uint64_t tail_seed = 12345;
};

class ScriptEngine
{
public:
    typedef std::uint64_t result_type;
    static constexpr result_type min() { return 0; }
    static constexpr result_type max() { return ~result_type(0); }

    ScriptEngine() : script_(current()), pos_(0) {}
    explicit ScriptEngine(std::shared_ptr<Script> s) : script_(s), pos_(0) {}

    static std::shared_ptr<Script>& current()
    {
        static thread_local std::shared_ptr<Script> cur;
        return cur;
    }

    result_type operator()()
    {
        std::uint64_t p = pos_++;
        ++drawlog().draws;
        if (script_ && p < script_->raw.size()) return script_->raw[p];
        std::uint64_t s = (script_ ? script_->tail_seed : 1) + p * 0x9e3779b97f4a7c15ULL;
        return splitmix(s);
    }
    void discard(unsigned long long n) { pos_ += n; drawlog().discarded += n; ++drawlog().discard_calls; }
    std::uint64_t position() const { return pos_; }
    void seed(std::uint64_t = 0) { pos_ = 0; }

    friend bool operator==(ScriptEngine const& a, ScriptEngine const& b) { return a.pos_ == b.pos_; }
    friend bool operator!=(ScriptEngine const& a, ScriptEngine const& b) { return a.pos_ != b.pos_; }
    template <typename C, typename Tr>
    friend std::basic_ostream<C, Tr>& operator<<(std::basic_ostream<C, Tr>& o, ScriptEngine const& e)
    {
        return o << e.pos_;
    }
    template <typename C, typename Tr>
    friend std::basic_istream<C, Tr>& operator>>(std::basic_istream<C, Tr>& i, ScriptEngine& e)
    {
        e.script_ = current();
        return i >> e.pos_;
    }
private:
    std::shared_ptr<Script> script_;
    std::uint64_t pos_;
};

// the canonical number the library will see for a raw 64-bit output
template <typename T> inline T canon(std::uint64_t raw)
{
    T r = T(raw) / T(18446744073709551616.0L);
    if (r >= T(1)) r = std::nextafter(T(1), T(0));
    return r;
}

// raw output that yields canonical number u (u must be a multiple of 2^-64 for exactness)
inline std::uint64_t raw_of(long double u)
{
    long double x = std::ldexp(u, 64);
    if (x >= 18446744073709551615.0L) return ~std::uint64_t(0);
    if (x <= 0) return 0;
    return (std::uint64_t)x;
}

// ------------------------------------------------------------------------------------------------
// CountingEngine: wraps a real engine, counts raw draws and discards (thread-local totals)
// ------------------------------------------------------------------------------------------------
template <typename E> class CountingEngine
{
public:
    typedef typename E::result_type result_type;
    static constexpr result_type min() { return E::min(); }
    static constexpr result_type max() { return E::max(); }
    CountingEngine() : e_() {}
    explicit CountingEngine(E const& e) : e_(e) {}
    result_type operator()() { ++drawlog().draws; return e_(); }
    void discard(unsigned long long n)
    {
        drawlog().discarded += n;
        ++drawlog().discard_calls;
        e_.discard(n);
    }
    E const& base() const { return e_; }
    friend bool operator==(CountingEngine const& a, CountingEngine const& b) { return a.e_ == b.e_; }
    friend bool operator!=(CountingEngine const& a, CountingEngine const& b) { return !(a.e_ == b.e_); }
    template <typename C, typename Tr>
    friend std::basic_ostream<C, Tr>& operator<<(std::basic_ostream<C, Tr>& o, CountingEngine const& e)
    {
        return o << e.e_;
    }
    template <typename C, typename Tr>
    friend std::basic_istream<C, Tr>& operator>>(std::basic_istream<C, Tr>& i, CountingEngine& e)
    {
        return i >> e.e_;
    }
private:
    E e_;
};

// serialise any engine / object with operator<<
template <typename X> inline std::string to_text(X const& x)
{
    std::ostringstream o;
    o << x;
    return o.str();
}

inline std::uint64_t hash_str(std::string const& s)
{
    std::uint64_t h = 1469598103934665603ULL;
    for (unsigned char c : s) { h ^= c; h *= 1099511628211ULL; }
    return mix(h, s.size());
}

} // namespace vf

#endif
