// main() shared by all monitor programs.  A harness defines
//   std::uint64_t vfh_num_cases(bool thorough);
//   void vfh_run_case(std::uint64_t idx, vf::Rng& rng);
//   void vfh_selftest();            // may call vf::inconclusive()
// Cases are addressed by index; case idx is the same whatever the number of shards, and its random
// stream depends only on (VERIF_SEED, idx), so `--case idx` replays exactly one case.
#ifndef VF_MAIN_HPP
#define VF_MAIN_HPP

#include "vf.hpp"

#include <exception>
#include <typeinfo>

std::uint64_t vfh_num_cases(bool thorough);
void vfh_run_case(std::uint64_t idx, vf::Rng& rng);
void vfh_selftest();

#if defined(__SANITIZE_ADDRESS__)
#define VF_HAS_ASAN 1
#elif defined(__has_feature)
#if __has_feature(address_sanitizer)
#define VF_HAS_ASAN 1
#endif
#endif
#ifdef VF_HAS_ASAN
extern "C" void __asan_on_error()
{
    std::fprintf(stderr, "VF_CASE %llu\nVF_INPUT %s\n", (unsigned long long)vf::ctx().cur_case, vf::breadcrumb().c_str());
}
#endif

#ifdef VF_FUZZ
// libFuzzer entry points: the input bytes choose the case index and feed the harness' Rng; the monitors are
// the same functions as in the seeded mode.  JSON lines go to stdout, the summary is printed at exit.
static void vf_fuzz_done()
{
    vf::Ctx& c = vf::ctx();
    std::string cs = "{", vk = "{";
    for (auto const& kv : c.counters) { if (cs.size() > 1) cs += ','; cs += '"' + vf::jesc(kv.first) + "\":" + std::to_string(kv.second); }
    for (auto const& kv : c.viol_per_key) { if (vk.size() > 1) vk += ','; vk += '"' + vf::jesc(kv.first) + "\":" + std::to_string(kv.second); }
    cs += "}"; vk += "}";
    if (!c.sigfile.empty())
        if (FILE* f = std::fopen(c.sigfile.c_str(), "wb")) { for (std::uint64_t s : c.sigs) std::fwrite(&s, sizeof s, 1, f); std::fclose(f); }
    std::printf("{\"t\":\"done\",\"variant\":\"%s\",\"cases\":%" PRIu64 ",\"evaluations\":%" PRIu64 ",\"violations\":%" PRIu64
        ",\"nontrivial\":%zu,\"counters\":%s,\"viol_keys\":%s,\"samples\":[]}\n", vf::jesc(c.variant).c_str(), c.cur_case, c.evaluations, c.violations,
        c.sigs.size(), cs.c_str(), vk.c_str());
    std::fflush(stdout);
}

extern "C" int LLVMFuzzerInitialize(int*, char***)
{
    vf::Ctx& c = vf::ctx();
    if (char const* s = std::getenv("VERIF_SEED")) c.seed = std::strtoull(s, 0, 10);
    if (char const* s = std::getenv("VF_SIGFILE")) c.sigfile = s;
    if (char const* s = std::getenv("VF_VARIANT")) c.variant = s;
    c.thorough = false;
    vfh_selftest();
    std::atexit(vf_fuzz_done);
    return 0;
}

extern "C" int LLVMFuzzerTestOneInput(unsigned char const* data, std::size_t size)
{
    vf::Ctx& c = vf::ctx();
    if (size < 2) return 0;
    std::uint64_t idx = data[0] | (std::uint64_t(data[1]) << 8);
    c.cur_case++;
    vf::count("fuzz_inputs");
    vf::Rng rng(vf::mix(c.seed, idx));
    rng.src = data + 2;
    rng.src_len = size - 2;
    try { vfh_run_case(idx, rng); }
    catch (std::exception const& e) { vf::viol(std::string("exception:") + typeid(e).name(), vf::J().s("what", e.what())); }
    return 0;
}
#else
int main(int argc, char** argv)
{
    vf::Ctx& c = vf::ctx();
    for (int i = 1; i < argc; ++i)
    {
        std::string a = argv[i];
        auto val = [&]() -> std::string { return (i + 1 < argc) ? argv[++i] : ""; };
        if (a == "--seed") c.seed = std::strtoull(val().c_str(), 0, 10);
        else if (a == "--tier") c.thorough = (val() == "thorough");
        else if (a == "--shard") { std::string v = val(); std::sscanf(v.c_str(), "%" SCNu64 "/%" SCNu64, &c.shard, &c.nshards); }
        else if (a == "--case") c.only_case = std::strtoll(val().c_str(), 0, 10);
        else if (a == "--sigfile") c.sigfile = val();
        else if (a == "--variant") c.variant = val();
    }
    vfh_selftest();
    std::uint64_t n = vfh_num_cases(c.thorough);
    std::uint64_t ran = 0;
    for (std::uint64_t idx = 0; idx < n; ++idx)
    {
        if (c.only_case >= 0) { if ((std::uint64_t)c.only_case != idx) continue; }
        else if (idx % c.nshards != c.shard) continue;
        c.cur_case = idx;
        vf::Rng rng(vf::mix(c.seed, idx));
        try
        {
            vfh_run_case(idx, rng);
        }
        catch (std::exception const& e)
        {
            vf::viol(std::string("exception:") + typeid(e).name(), vf::J().s("what", e.what()));
        }
        ++ran;
    }
    std::string cs = "{";
    for (auto const& kv : c.counters)
    {
        if (cs.size() > 1) cs += ',';
        cs += '"' + vf::jesc(kv.first) + "\":" + std::to_string(kv.second);
    }
    cs += "}";
    std::string vk = "{";
    for (auto const& kv : c.viol_per_key)
    {
        if (vk.size() > 1) vk += ',';
        vk += '"' + vf::jesc(kv.first) + "\":" + std::to_string(kv.second);
    }
    vk += "}";
    std::string ss = "[";
    for (std::size_t i = 0; i < c.samples.size(); ++i)
    {
        if (i) ss += ',';
        ss += c.samples[i];
    }
    ss += "]";
    if (!c.sigfile.empty())
    {
        if (FILE* f = std::fopen(c.sigfile.c_str(), "wb"))
        {
            for (std::uint64_t s : c.sigs) std::fwrite(&s, sizeof s, 1, f);
            std::fclose(f);
        }
    }
    std::printf("{\"t\":\"done\",\"variant\":\"%s\",\"cases\":%" PRIu64 ",\"evaluations\":%" PRIu64
        ",\"violations\":%" PRIu64 ",\"nontrivial\":%zu,\"counters\":%s,\"viol_keys\":%s,\"samples\":%s}\n",
        vf::jesc(c.variant).c_str(), ran, c.evaluations, c.violations, c.sigs.size(), cs.c_str(), vk.c_str(),
        ss.c_str());
    std::fflush(stdout);
    return 0;
}
#endif

#endif
