// C18 - application driven under the crash-point interposer: load the checkpoint file if present, run the
// remaining iterations with the built-in callback writing the checkpoint file after each iteration.
//   c18_app <workload> <checkpoint file> <reference dir or "-"> <iterations>
// With a reference dir the text of the checkpoint after each iteration k is stored as <dir>/ref.<k> (outside
// the directory the interposer watches), and the final text as <dir>/final.
#include "vf.hpp"
#include "mcmap.hpp"
#include "hep/mc-mpi.hpp"

#include <fstream>
#include <iostream>
#include <sstream>

extern "C" void vf_cp_mark(int) __attribute__((weak));

using namespace vf;

namespace
{

std::string g_refdir;

template <typename Chk> struct Wrapper
{
    hep::callback<Chk> inner;
    bool operator()(Chk const& chk)
    {
        int k = (int)chk.results().size();
        if (vf_cp_mark) vf_cp_mark(k);
        bool more = inner(chk);
        if (g_refdir != "-")
        {
            std::ofstream o(g_refdir + "/ref." + std::to_string(k));
            chk.serialize(o);
        }
        return more;
    }
};

// MPI form (thread ranks of the shim inside this one process: a kill takes all ranks down at once, like a node failure)
template <typename Chk> struct MpiWrapper
{
    hep::mpi_callback<Chk> inner;
    int rank;
    bool operator()(MPI_Comm comm, Chk const& chk)
    {
        int k = (int)chk.results().size();
        if (vf_cp_mark && rank == 0) vf_cp_mark(k);
        bool more = inner(comm, chk);
        if (g_refdir != "-" && rank == 0)
        {
            std::ofstream o(g_refdir + "/ref." + std::to_string(k));
            chk.serialize(o);
        }
        return more;
    }
};

template <typename T> T f_plain(hep::mc_point<T> const& p) { T x = p.point()[0]; return T(3) * x * x + T(0.25); }

template <typename T> T f_dist(hep::mc_point<T> const& p, hep::projector<T>& pr)
{
    T x = p.point()[0], y = p.point()[1];
    T v = T(1) / (T(0.01) + (x - T(0.3)) * (x - T(0.3)) + (y - T(0.7)) * (y - T(0.7)));
    pr.add(0, x, v);
    pr.add(1, x, y, v);
    return v;
}

template <typename T> T f_mc(hep::multi_channel_point<T> const& p) { T x = p.coordinates()[0]; return T(4) * x * x * x + T(0.1); }

template <typename Chk> int finish(Chk const& chk)
{
    if (g_refdir != "-")
    {
        std::ofstream o(g_refdir + "/final");
        chk.serialize(o);
    }
    return 0;
}

std::vector<std::size_t> remaining(std::size_t total, std::size_t done, std::size_t calls)
{
    std::vector<std::size_t> v;
    for (std::size_t i = done; i < total; ++i) v.push_back(calls + 37 * i);
    return v;
}

} // namespace

int main(int argc, char** argv)
{
    if (argc < 5) return 64;
    std::string workload = argv[1], file = argv[2];
    g_refdir = argv[3];
    std::size_t iterations = std::strtoul(argv[4], 0, 10);
    std::ifstream in(file);
    if (workload == "plain-minstd")
    {
        typedef hep::plain_chkpt_with_rng<std::minstd_rand, double> C;
        C chk = hep::make_plain_chkpt<double, std::minstd_rand>(in);
        Wrapper<C> cb = {hep::callback<C>(hep::callback_mode::silent_and_write_chkpt, file)};
        return finish(hep::plain(hep::make_integrand<double>(f_plain<double>, 1), remaining(iterations, chk.results().size(), 200), chk, cb));
    }
    if (workload == "mpi-plain")
    {
        // two ranks (a + b == b + a bitwise, so the seeded reduction order of the shim cannot make a resumed run differ from the uninterrupted one);
        // only the text of the file is shared, every rank builds its own checkpoint and callback
        typedef hep::plain_chkpt_with_rng<std::mt19937, double> C;
        std::stringstream text;
        text << in.rdbuf();
        int const P = 2;
        std::vector<std::string> finals(P);
        VfWorld world;
        vf_mpi_run(world, P, 99, [&](int rank, MPI_Comm comm) {
            std::istringstream mine(text.str());
            C chk = hep::make_plain_chkpt<double, std::mt19937>(mine);
            MpiWrapper<C> cb = {hep::mpi_callback<C>(hep::callback_mode::silent_and_write_chkpt, file), rank};
            C r = hep::mpi_plain(comm, hep::make_integrand<double>(f_plain<double>, 1), remaining(iterations, chk.results().size(), 300), chk, cb);
            std::ostringstream o;
            r.serialize(o);
            finals[rank] = o.str();
        });
        if (world.aborted) return 66;
        if (g_refdir != "-")
        {
            std::ofstream o(g_refdir + "/final");
            o << finals[0];
        }
        return 0;
    }
    if (workload == "plain-mt19937")
    {
        typedef hep::plain_chkpt_with_rng<std::mt19937, double> C;
        C chk = hep::make_plain_chkpt<double, std::mt19937>(in);
        Wrapper<C> cb = {hep::callback<C>(hep::callback_mode::silent_and_write_chkpt, file)};
        return finish(hep::plain(hep::make_integrand<double>(f_plain<double>, 1), remaining(iterations, chk.results().size(), 300), chk, cb));
    }
    if (workload == "vegas-dist")
    {
        typedef hep::vegas_chkpt_with_rng<std::mt19937, long double> C;
        C chk = in.peek() == std::ifstream::traits_type::eof() ? hep::make_vegas_chkpt<long double, std::mt19937>(128, 1.5L) : C(in);
        Wrapper<C> cb = {hep::callback<C>(hep::callback_mode::silent_and_write_chkpt, file)};
        return finish(hep::vegas(hep::make_integrand<long double>(f_dist<long double>, 3, hep::make_dist_params<long double>(40, 0.0L, 1.0L, "x projection"),
            hep::distribution_parameters<long double>(10, 8, 0.0L, 1.0L, 0.0L, 1.0L, "x y")), remaining(iterations, chk.results().size(), 500), chk, cb));
    }
    if (workload == "mc-40")
    {
        typedef hep::multi_channel_chkpt_with_rng<std::ranlux48, float> C;
        PowerMap<float> pm;
        for (int c = 0; c < 40; ++c) pm.a.push_back(float(c % 7) * 0.5f);
        C chk = in.peek() == std::ifstream::traits_type::eof() ? hep::make_multi_channel_chkpt<float, std::ranlux48>(0.001f, 0.25f) : C(in);
        Wrapper<C> cb = {hep::callback<C>(hep::callback_mode::silent_and_write_chkpt, file)};
        return finish(hep::multi_channel(hep::make_multi_channel_integrand<float>(f_mc<float>, 1, pm, 1, 40), remaining(iterations, chk.results().size(), 400), chk, cb));
    }
    return 65;
}
