// C03 - resuming from a checkpoint is indistinguishable from never stopping.
// All compositions of an n-iteration run into segments, each cut going checkpoint -> text -> checkpoint
// (string stream, or the file the built-in callback writes); oracle: byte equality of the final text.
#include "vf_main.hpp"
#include "hist.hpp"
#include "rec.hpp"
#include "hep/mc-mpi.hpp"

#include <locale>
#include <unistd.h>

typedef VF_T T;
using namespace vf;

#ifndef VF_ENG
#define VF_ENG std::mt19937
#define VF_ENG_NAME "mt19937"
#endif
typedef VF_ENG E;

namespace
{

template <typename Chk> T rel_error_T(Chk const& c)
{
    auto const all = hep::accumulate<hep::weighted_with_variance>(c.results().begin(), c.results().end());
    return all.error() / std::fabs(all.value());
}

template <typename Chk> struct Probe
{
    std::vector<T>* rels;
    bool operator()(Chk const& c) { rels->push_back(rel_error_T(c)); return true; }
};

// a global locale with a decimal comma (program configuration: both the library's file stream and the user's streams
// pick it up); restored at the end of the case
struct CommaPunct : std::numpunct<char>
{
    char do_decimal_point() const override { return ','; }
};

struct LocaleGuard
{
    std::locale old;
    bool active;
    explicit LocaleGuard(bool on) : old(std::locale()), active(on)
    {
        if (on) std::locale::global(std::locale(std::locale::classic(), new CommaPunct));
    }
    ~LocaleGuard() { if (active) std::locale::global(old); }
};

// the built-in callback, remembering its last decision (a user who is told to stop does not resume)
template <typename Chk> struct Deciding
{
    hep::callback<Chk> inner;
    bool* last;
    bool operator()(Chk const& c) { *last = inner(c); return *last; }
};

template <int F> void flavour_case(Rng& rng, std::uint64_t idx)
{
    typedef Flavour<F, T, E> Fl;
    typedef typename Fl::chk_t chk_t;
    HistCfg<T> cfg = make_hist_cfg<T>(rng);
    std::size_t nmax = ctx().thorough ? 6 : 4;
    std::size_t n = 2 + (idx / 5) % (nmax - 1);
    std::vector<std::size_t> calls;
    for (std::size_t i = 0; i < n; ++i) calls.push_back(rng.range(60, 400));
    E gen;
    gen.discard(rng.below(5000));
    bool file_transport = rng.below(2);
    bool comma_locale = rng.below(5) == 0;
    LocaleGuard locale_guard(comma_locale);
    if (comma_locale) count("cases_with_decimal_comma_global_locale");
    bool with_target = rng.below(3) == 0;
    char fname[128];
    std::snprintf(fname, sizeof fname, "c03_%d_%llu.chkpt", (int)getpid(), (unsigned long long)idx);
    chk_t initial = Fl::initial(cfg, gen);
    T target = T();
    if (with_target)
    {
        std::vector<T> rels;
        Probe<chk_t> pr = {&rels};
        Fl::run(cfg, initial, calls, pr);
        std::size_t aim = rng.below(n);
        target = rels[aim] * T(1.03125);
        if (!(target > T()) || !std::isfinite(target)) { with_target = false; target = T(); }
    }
    J info;
    info.s("T", tname<T>::get()).s("engine", VF_ENG_NAME).s("flavour", Fl::name()).uv("calls", calls).b("file_transport", file_transport).b("decimal_comma_locale", comma_locale).f("target", target)
        .u("dims", cfg.dims).u("bins", cfg.bins).u("channels", cfg.channels).s("name1", cfg.name1).s("name2", cfg.name2.substr(0, 20));
    hep::callback_mode mode = file_transport ? hep::callback_mode::silent_and_write_chkpt : hep::callback_mode::silent;
    // uninterrupted run
    chk_t whole = Fl::run(cfg, initial, calls, hep::callback<chk_t>(mode, fname, target));
    std::string want = text_of(whole);
    std::size_t done = whole.results().size();
    if (with_target && done < n) count("runs_stopped_early_by_target");
    bool adaptive_changed = false;
    if (whole.results().size() >= 2)
    {
        std::ostringstream a, b;
        whole.results().front().serialize(a);
        whole.results().back().serialize(b);
        adaptive_changed = a.str() != b.str();
    }
    // every subset of the n-1 iteration boundaries as interruption points
    for (std::uint64_t mask = 1; mask < (std::uint64_t(1) << (n - 1)); ++mask)
    {
        ::unlink(fname);
        chk_t cur = initial;
        if (mask & 1)
        {
            // boundary 0 as an interruption point as well: the initial checkpoint itself goes through text before the
            // first iteration (for the default flavours it has not seen an integrator yet)
            std::istringstream in0(text_of(initial));
            cur = chk_t(in0);
            if (in0.fail()) { viol(std::string("reload-of-initial-checkpoint-failed:") + Fl::name(), J(info).u("mask", mask)); continue; }
            count("initial_checkpoints_reloaded_before_the_first_iteration");
        }
        std::size_t pos = 0;
        bool stopped = false;
        std::size_t cuts = 0;
        bool failed = false;
        while (pos < n && !stopped)
        {
            std::size_t end = pos + 1;
            while (end < n && !(mask & (std::uint64_t(1) << (end - 1)))) ++end;
            std::vector<std::size_t> seg(calls.begin() + pos, calls.begin() + end);
            std::size_t before = cur.results().size();
            bool last = true;
            Deciding<chk_t> cb = {hep::callback<chk_t>(mode, fname, target), &last};
            chk_t next = Fl::run(cfg, cur, seg, cb);
            if (!last || next.results().size() < before + seg.size()) stopped = true;     // the callback said stop: the user honours it
            pos = end;
            if (pos < n && !stopped)
            {
                ++cuts;
                count("interruptions");
                if (file_transport)
                {
                    std::ifstream in(fname);
                    if (!in) { viol("checkpoint-file-missing-after-segment", J(info).u("mask", mask)); failed = true; break; }
                    cur = chk_t(in);
                    if (in.fail()) { viol(std::string("reload-from-file-failed:") + Fl::name(), J(info).u("mask", mask)); failed = true; break; }
                    if (text_of(cur) != text_of(next)) { viol(std::string("file-differs-from-returned-checkpoint:") + Fl::name(), J(info).u("mask", mask)); failed = true; break; }
                }
                else
                {
                    std::istringstream in(text_of(next));
                    cur = chk_t(in);
                    if (in.fail()) { viol(std::string("reload-from-text-failed:") + Fl::name(), J(info).u("mask", mask)); failed = true; break; }
                }
            }
            else cur = next;
        }
        ++ctx().evaluations;
        count("compositions_checked");
        if (failed) continue;
        std::string got = text_of(cur);
        if (got != want)
        {
            std::size_t p = 0;
            while (p < got.size() && p < want.size() && got[p] == want[p]) ++p;
            viol(std::string("resumed-run-differs-from-uninterrupted-run:") + Fl::name() + (with_target ? ":with-target" : "") + (file_transport ? ":file" : ":text"),
                J(info).u("mask", mask).u("cuts", cuts).u("first_difference_at", p).u("results_resumed", cur.results().size()).u("results_uninterrupted", done)
                .s("got", got.substr(p > 30 ? p - 30 : 0, 100)).s("want", want.substr(p > 30 ? p - 30 : 0, 100)));
            break;
        }
        if (cuts >= 1 && (adaptive_changed || F == 0 || F == 1 || F == 4)) nontrivial(mix(hash_str(info.str()), mask));
    }
    ::unlink(fname);
    ::unlink((std::string(fname) + ".tmp").c_str());
    count(std::string("cases_") + Fl::name());
    if (file_transport) count("cases_file_transport"); else count("cases_text_transport");
    sample(info, 5);
}


// ---- the MPI integrators on the thread shim: interrupt after any iteration, every rank reloads the text rank 0 holds, continue ----------
// Two ranks: a + b == b + a bitwise, so the seeded reduction order of the shim cannot by itself make a resumed run differ.
struct GoOnMpi3 { template <typename C> bool operator()(MPI_Comm, C const&) const { return true; } };

template <typename C, typename RunFn> bool mpi_segment(std::string const& from, C const& initial, bool use_text, std::vector<std::size_t> const& seg, RunFn run, std::uint64_t wseed,
    std::string& out, J const& info)
{
    int const P = 2;
    std::vector<std::string> texts(P);
    VfWorld world;
    vf_mpi_run(world, P, wseed, [&](int rank, MPI_Comm comm) {
        C start = initial;
        if (use_text) { std::istringstream in(from); start = C(in); }
        texts[rank] = text_of(run(comm, start, seg));
    });
    if (world.aborted || vf_mpi_take_misuse() != 0) { viol("mpi:collective-mismatch-or-wrong-communicator", info); return false; }
    if (texts[1] != texts[0]) { viol("mpi:ranks-return-different-checkpoints", info); return false; }
    out = texts[0];
    return true;
}

template <typename C, typename RunFn> void mpi_compositions(char const* name, C const& initial, std::vector<std::size_t> const& calls, RunFn run, Rng& rng, J info)
{
    std::size_t n = calls.size();
    info.s("integrator", name);
    std::string want;
    if (!mpi_segment<C>("", initial, false, calls, run, rng.next(), want, info)) return;
    for (std::uint64_t mask = 1; mask < (std::uint64_t(1) << n); ++mask)
    {
        // bit 0: the initial checkpoint goes through text; bit k: interruption after iteration k
        std::string cur = text_of(initial);
        bool use_text = mask & 1;
        std::size_t pos = 0;
        bool ok = true;
        while (pos < n && ok)
        {
            std::size_t end = pos + 1;
            while (end < n && !(mask & (std::uint64_t(1) << end))) ++end;
            std::vector<std::size_t> seg(calls.begin() + pos, calls.begin() + end);
            std::string next;
            ok = mpi_segment<C>(cur, initial, use_text || pos > 0, seg, run, rng.next(), next, J(info).u("mask", mask));
            cur = next;
            pos = end;
            count("mpi_interruptions");
        }
        if (!ok) return;
        count("mpi_compositions_checked");
        if (cur != want)
        {
            std::size_t p = 0;
            while (p < cur.size() && p < want.size() && cur[p] == want[p]) ++p;
            viol(std::string("mpi:resumed-run-differs-from-uninterrupted-run:") + name, J(info).u("mask", mask).u("first_difference_at", p));
            return;
        }
    }
    nontrivial(mix(hash_str(info.str()), 91));
}

void mpi_case(Rng& rng, std::uint64_t idx)
{
    HistCfg<T> cfg = make_hist_cfg<T>(rng);
    std::size_t n = rng.range(2, 3);
    std::vector<std::size_t> calls;
    for (std::size_t i = 0; i < n; ++i) calls.push_back(rng.below(4) == 0 ? rng.range(1, 3) : rng.range(60, 301));
    E gen;
    gen.discard(rng.below(5000));
    J info;
    info.s("T", tname<T>::get()).s("engine", VF_ENG_NAME).uv("calls", calls).u("dims", cfg.dims).u("bins", cfg.bins).u("channels", cfg.channels).i("ranks", 2);
    HistIntegrand<T> f = {&cfg};
    int kind = (idx / 6) % 3;
    count("mpi_cases");
    if (kind == 0)
    {
        typedef hep::plain_chkpt_with_rng<E, T> C;
        mpi_compositions<C>("mpi_plain", C(gen), calls, [&](MPI_Comm comm, C const& c, std::vector<std::size_t> const& seg) {
            return hep::mpi_plain(comm, hep::make_integrand<T>(f, cfg.dims, hep::make_dist_params<T>(cfg.dbins, cfg.dmin, cfg.dmax, cfg.name1),
                hep::distribution_parameters<T>(3, 2, cfg.dmin, cfg.dmax, T(0), T(1), cfg.name2)), seg, c, GoOnMpi3()); }, rng, info);
    }
    else if (kind == 1)
    {
        typedef hep::vegas_chkpt_with_rng<E, T> C;
        mpi_compositions<C>("mpi_vegas", C(gen, cfg.bins, cfg.alpha), calls, [&](MPI_Comm comm, C const& c, std::vector<std::size_t> const& seg) {
            return hep::mpi_vegas(comm, hep::make_integrand<T>(f, cfg.dims), seg, c, GoOnMpi3()); }, rng, info);
    }
    else
    {
        typedef hep::multi_channel_chkpt_with_rng<E, T> C;
        mpi_compositions<C>("mpi_multi_channel", C(gen, cfg.weights, cfg.min_weight, cfg.beta), calls, [&](MPI_Comm comm, C const& c, std::vector<std::size_t> const& seg) {
            return hep::mpi_multi_channel(comm, hep::make_multi_channel_integrand<T>(f, cfg.dims, hist_map(cfg), cfg.dims, cfg.channels), seg, c, GoOnMpi3()); }, rng, info);
    }
    ++ctx().evaluations;
}

} // namespace

std::uint64_t vfh_num_cases(bool thorough) { return thorough ? 720 : 108; }

void vfh_run_case(std::uint64_t idx, Rng& rng)
{
    if (idx % 6 == 5) { mpi_case(rng, idx); return; }
    switch ((idx - idx / 6) % 5)
    {
    case 0: flavour_case<0>(rng, idx); break;
    case 1: flavour_case<1>(rng, idx); break;
    case 2: flavour_case<2>(rng, idx); break;
    case 3: flavour_case<3>(rng, idx); break;
    default: flavour_case<4>(rng, idx); break;
    }
}

void vfh_selftest() {}
