// C16 - the MPI work split tiles the calls exactly.
// (a) hep::discard_before / discard_after evaluated exhaustively on a small box and seeded beyond;
// (b) per-rank call counts and stream positions OBSERVED inside mpi_plain / mpi_vegas / mpi_multi_channel
//     running on the thread-based MPI shim with a counting engine.
#include "vf_main.hpp"
#include "mcmap.hpp"
#include "hep/mc-mpi.hpp"

typedef VF_T T;
using namespace vf;

namespace
{

void judge_helpers(std::uint64_t total, std::uint64_t world, bool exhaustive_box)
{
    std::uint64_t lo = total / world, hi = lo + (total % world ? 1 : 0);
    std::uint64_t sum = 0;
    J info;
    info.u("total", total).u("world", world);
    for (std::uint64_t r = 0; r < world; ++r)
    {
        std::uint64_t before = hep::discard_before(total, r, world);
        std::uint64_t next = (r + 1 < world) ? hep::discard_before(total, r + 1, world) : total;
        count("triples_checked");
        if (before != sum) { viol("helper:before-is-not-sum-of-earlier-shares", J(info).u("rank", r).u("before", before).u("sum_of_shares", sum)); return; }
        if (next < before) { viol("helper:before-decreasing", J(info).u("rank", r)); return; }
        std::uint64_t share = next - before;
        if (share != lo && share != hi) { viol("helper:share-not-floor-or-ceil", J(info).u("rank", r).u("share", share)); return; }
        std::uint64_t after = hep::discard_after(total, share, r, world);
        if (before + share + after != total) { viol("helper:before+share+after!=total", J(info).u("rank", r).u("before", before).u("share", share).u("after", after)); return; }
        sum += share;
    }
    if (sum != total) viol("helper:shares-do-not-sum-to-total", J(info).u("sum", sum));
    (void)exhaustive_box;
}

void helpers_exhaustive()
{
    // the whole box total 0..512 x world 1..64 x every rank
    for (std::uint64_t world = 1; world <= 64; ++world)
        for (std::uint64_t total = 0; total <= 512; ++total) judge_helpers(total, world, true);
    count("exhaustive_box_pairs", 64 * 513);
    ctx().evaluations += 64 * 513;
    for (std::uint64_t world = 2; world <= 64; ++world)
        for (std::uint64_t total = 0; total <= 512; ++total) if (total % world) nontrivial(mix(total, world));
}

void helpers_seeded(Rng& rng)
{
    for (int i = 0; i < 200; ++i)
    {
        std::uint64_t world = rng.below(3) ? rng.range(1, 100) : rng.range(1, 65536);
        std::uint64_t total = rng.below(4) == 0 ? world * rng.range(0, 1000) + rng.range(0, 2) : (rng.next() >> (24 + rng.below(39)));
        if (total > (std::uint64_t(1) << 40)) total >>= 24;
        judge_helpers(total, world, false);
        count("seeded_pairs");
        if (total % world != 0) nontrivial(mix(total, world));
        ++ctx().evaluations;
    }
}

// ---- (b) observed shares under the shim ----------------------------------------------------------
typedef CountingEngine<std::mt19937> Eng;

// user callback that never stops the run (the stop decision is C12's business)
struct GoOn
{
    template <typename C> bool operator()(MPI_Comm, C const&) const { return true; }
};

struct RankLog
{
    std::vector<std::uint64_t> pos;     // raw stream position (draws + discards) at each integrand invocation
    std::string final_generator;
    std::string final_text;
};

RankLog*& my_log()
{
    static thread_local RankLog* p = 0;
    return p;
}

template <typename P> T obs_f(P const&)
{
    DrawLog const& d = drawlog();
    my_log()->pos.push_back(d.draws + d.discarded);
    return T(1);
}

void shim_case(Rng& rng, int P, std::vector<std::size_t> const& calls, int integrator)
{
    std::size_t dims = rng.range(1, 3), channels = rng.range(1, 3);
    std::size_t coords = rng.range(1, dims);         // multi-channel: the map may produce fewer coordinates than it takes random numbers
    std::size_t per_call = integrator == 2 ? dims + 1 : dims;
    std::size_t k = hep::random_number_usage<T, Eng>();
    // what one canonical number really costs on this engine (measured, not predicted)
    {
        Eng e;
        drawlog() = DrawLog();
        (void)std::generate_canonical<T, std::numeric_limits<T>::digits>(e);
        if (drawlog().draws != k) { count("usage_predictor_mismatch_skipped"); return; }
    }
    std::vector<RankLog> logs(P);
    std::uint32_t eseed = (std::uint32_t)rng.next();
    VfWorld world;
    PowerMap<T> map;
    for (std::size_t c = 0; c < channels; ++c) map.a.push_back(T(c));
    vf_mpi_run(world, P, rng.next(), [&](int rank, MPI_Comm comm) {
        my_log() = &logs[rank];
        drawlog() = DrawLog();
        Eng eng((std::mt19937(eseed)));
        std::ostringstream text;
        if (integrator == 0)
        {
            typedef hep::plain_chkpt_with_rng<Eng, T> chk_t;
            auto r = hep::mpi_plain(comm, hep::make_integrand<T>(obs_f<hep::mc_point<T>>, dims), calls, chk_t(eng),
                GoOn());
            logs[rank].final_generator = to_text(r.generator());
            r.serialize(text);
        }
        else if (integrator == 1)
        {
            typedef hep::vegas_chkpt_with_rng<Eng, T> chk_t;
            auto r = hep::mpi_vegas(comm, hep::make_integrand<T>(obs_f<hep::vegas_point<T>>, dims), calls, chk_t(eng, 4, T(1.5)),
                GoOn());
            logs[rank].final_generator = to_text(r.generator());
            r.serialize(text);
        }
        else
        {
            typedef hep::multi_channel_chkpt_with_rng<Eng, T> chk_t;
            auto r = hep::mpi_multi_channel(comm, hep::make_multi_channel_integrand<T>(obs_f<hep::multi_channel_point<T>>, dims, map, coords, channels),
                calls, chk_t(eng, T(), T(0.25)), GoOn());
            logs[rank].final_generator = to_text(r.generator());
            r.serialize(text);
        }
        logs[rank].final_text = text.str();
    });
    std::uint64_t misuse = vf_mpi_take_misuse();
    static const char* names[] = {"mpi_plain", "mpi_vegas", "mpi_multi_channel"};
    J info;
    info.s("T", tname<T>::get()).s("integrator", names[integrator]).u("world", P).uv("calls", calls).u("dims", dims).u("usage_per_number", k);
    ++ctx().evaluations;
    count("shim_runs");
    if (integrator == 2) { info.u("map_dimensions", coords); if (coords != dims) count("multi_channel_runs_with_map_dimensions_differing_from_dimensions"); }
    if (misuse) { viol(std::string("library-used-MPI_COMM_WORLD-instead-of-the-communicator-it-was-given:") + names[integrator], J(info).u("uses", misuse)); return; }
    count("shim_collectives", world.collectives);
    if (world.aborted) { viol(std::string("shim:collective-mismatch-or-hang:") + names[integrator], J(info).s("reason", world.abort_reason)); return; }
    // walk the iterations: every rank's invocations must tile [0,total) contiguously in rank order
    std::vector<std::size_t> cursor(P, 0);
    std::uint64_t base = 0;     // raw position at iteration start
    std::uint64_t usage = per_call * k;
    bool nontriv = false;
    for (std::size_t it = 0; it < calls.size(); ++it)
    {
        std::uint64_t total = calls[it], offset = 0, minc = ~std::uint64_t(0), maxc = 0, sum = 0;
        for (int r = 0; r < P; ++r)
        {
            // this rank's invocations of iteration `it` are those whose position lies in (base, base + usage*total]
            std::uint64_t cnt = 0;
            std::size_t& cur = cursor[r];
            while (cur < logs[r].pos.size() && logs[r].pos[cur] <= base + usage * total && (total > 0))
            {
                std::uint64_t expect = base + usage * (offset + cnt + 1);
                if (logs[r].pos[cur] != expect)
                {
                    viol(std::string("observed:share-not-contiguous:") + names[integrator], J(info).u("iteration", it).u("rank", r).u("call_of_rank", cnt)
                        .u("stream_position", logs[r].pos[cur]).u("expected", expect));
                    return;
                }
                ++cnt;
                ++cur;
            }
            minc = std::min(minc, cnt);
            maxc = std::max(maxc, cnt);
            sum += cnt;
            offset += cnt;
            count("rank_shares_observed");
        }
        if (sum != total) { viol(std::string("observed:counts-do-not-sum-to-total:") + names[integrator], J(info).u("iteration", it).u("sum", sum).u("total", total)); return; }
        if (maxc - minc > 1) { viol(std::string("observed:counts-differ-by-more-than-one:") + names[integrator], J(info).u("iteration", it).u("min", minc).u("max", maxc)); return; }
        if (total % P != 0 || total < (std::uint64_t)P) nontriv = true;
        base += usage * total;
    }
    for (int r = 0; r < P; ++r)
        if (cursor[r] != logs[r].pos.size()) { viol(std::string("observed:extra-invocations:") + names[integrator], J(info).u("rank", r).u("extra", logs[r].pos.size() - cursor[r])); return; }
    // every rank ends at the same stream position, namely the initial engine advanced by the whole run
    Eng ref((std::mt19937(eseed)));
    ref.discard(base);
    std::string want = to_text(ref);
    for (int r = 0; r < P; ++r)
    {
        if (logs[r].final_generator != want) { viol(std::string("observed:final-stream-position:") + names[integrator], J(info).u("rank", r)); return; }
        if (logs[r].final_text != logs[0].final_text) { viol(std::string("observed:ranks-return-different-checkpoints:") + names[integrator], J(info).u("rank", r)); return; }
    }
    if (nontriv && P >= 2) nontrivial(mix(hash_str(info.str()), 1));
    sample(info, 4);
}


// ---- (c) one iteration with more calls than fit into 31 / 32 bits ----------------------------------
// Nothing is stored per call: every rank keeps its count, the stream position of its first and last call, and whether
// every step in between was exactly one call's worth.
struct HugeLog { std::uint64_t count = 0, first = 0, last = 0, bad_steps = 0, usage = 0, end_position = 0; std::string final_generator; };

HugeLog*& my_huge()
{
    static thread_local HugeLog* p = 0;
    return p;
}

template <typename P> T huge_f(P const&)
{
    DrawLog const& d = drawlog();
    HugeLog& h = *my_huge();
    std::uint64_t pos = d.draws + d.discarded;
    if (h.count == 0) h.first = pos;
    else if (pos - h.last != h.usage) ++h.bad_steps;
    h.last = pos;
    ++h.count;
    return T(1);
}

void huge_case(int integrator)
{
    int const P = 7;
    // 2^32 + 5 = 2 (mod 7) but 5 when truncated to 32 bits; 2^31 + 6 = 1 (mod 7) but negative as an int
    std::uint64_t total = integrator == 0 ? (std::uint64_t(1) << 32) + 5 : (std::uint64_t(1) << 31) + 6;
    std::size_t dims = 1, channels = 2;
    std::size_t per_call = integrator == 2 ? dims + 1 : dims;
    std::uint64_t k = hep::random_number_usage<T, Eng>();
    std::uint64_t usage = per_call * k;
    std::vector<HugeLog> logs(P);
    VfWorld world;
    PowerMap<T> map;
    for (std::size_t c = 0; c < channels; ++c) map.a.push_back(T(c));
    std::vector<std::size_t> calls(1, (std::size_t)total);
    vf_mpi_run(world, P, 12345, [&](int rank, MPI_Comm comm) {
        logs[rank].usage = usage;
        my_huge() = &logs[rank];
        drawlog() = DrawLog();
        Eng eng((std::mt19937(777)));
        if (integrator == 0)
            logs[rank].final_generator = to_text(hep::mpi_plain(comm, hep::make_integrand<T>(huge_f<hep::mc_point<T>>, dims), calls, hep::plain_chkpt_with_rng<Eng, T>(eng), GoOn()).generator());
        else if (integrator == 1)
            logs[rank].final_generator = to_text(hep::mpi_vegas(comm, hep::make_integrand<T>(huge_f<hep::vegas_point<T>>, dims), calls, hep::vegas_chkpt_with_rng<Eng, T>(eng, 4, T(1.5)), GoOn()).generator());
        else
            logs[rank].final_generator = to_text(hep::mpi_multi_channel(comm, hep::make_multi_channel_integrand<T>(huge_f<hep::multi_channel_point<T>>, dims, map, dims, channels), calls,
                hep::multi_channel_chkpt_with_rng<Eng, T>(eng, T(), T(0.25)), GoOn()).generator());
        logs[rank].end_position = drawlog().draws + drawlog().discarded;
    });
    static const char* names[] = {"mpi_plain", "mpi_vegas", "mpi_multi_channel"};
    J info;
    info.s("T", tname<T>::get()).s("integrator", names[integrator]).u("world", P).u("calls", total).u("usage_per_call", usage);
    ++ctx().evaluations;
    count("huge_runs");
    count("huge_calls_observed", total);
    if (world.aborted) { viol(std::string("shim:collective-mismatch-or-hang:") + names[integrator], J(info).s("reason", world.abort_reason)); return; }
    std::uint64_t offset = 0, sum = 0;
    for (int r = 0; r < P; ++r)
    {
        HugeLog const& h = logs[r];
        std::uint64_t expect = total / P + (std::uint64_t(r) < total % P ? 1 : 0);
        J ri = J(info).u("rank", r).u("count", h.count).u("expected_count", expect);
        if (h.count != expect) { viol(std::string("observed:huge:rank-share:") + names[integrator], ri); return; }
        if (h.bad_steps) { viol(std::string("observed:huge:steps-inside-share:") + names[integrator], J(ri).u("bad_steps", h.bad_steps)); return; }
        if (h.count && (h.first != usage * (offset + 1) || h.last != usage * (offset + h.count)))
        { viol(std::string("observed:share-not-contiguous:") + names[integrator], J(ri).u("first", h.first).u("last", h.last).u("expected_first", usage * (offset + 1))); return; }
        if (h.end_position != usage * total) { viol(std::string("observed:final-stream-position:") + names[integrator], J(ri).u("end", h.end_position).u("expected", usage * total)); return; }
        if (h.final_generator != logs[0].final_generator) { viol(std::string("observed:ranks-return-different-generators:") + names[integrator], ri); return; }
        offset += h.count;
        sum += h.count;
        count("rank_shares_observed");
    }
    if (sum != total) { viol(std::string("observed:counts-do-not-sum-to-total:") + names[integrator], J(info).u("sum", sum)); return; }
    nontrivial(mix(hash_str(info.str()), 3));
    sample(info, 3);
}

std::vector<int> worlds()
{
    if (ctx().thorough) { std::vector<int> w; for (int p = 1; p <= 33; ++p) w.push_back(p); return w; }
    return {1, 2, 3, 4, 5, 7, 8, 16, 33};
}

} // namespace

#ifdef VF_HUGE
std::uint64_t vfh_num_cases(bool) { return 3; }
void vfh_run_case(std::uint64_t idx, Rng&) { huge_case((int)idx); }
#else
std::uint64_t vfh_num_cases(bool thorough)
{
    return 1 + (thorough ? 2000 : 20) + worlds().size() * 3 * (thorough ? 24 : 2);
}

void vfh_run_case(std::uint64_t idx, Rng& rng)
{
    std::uint64_t seeded = ctx().thorough ? 2000 : 20;
    if (idx == 0) { helpers_exhaustive(); return; }
    if (idx <= seeded) { helpers_seeded(rng); return; }
    std::uint64_t j = idx - 1 - seeded;
    std::vector<int> w = worlds();
    int P = w[j % w.size()];
    int integrator = (j / w.size()) % 3;
    std::uint64_t p = P;
    std::vector<std::size_t> pool = {0, 1, p - 1, p, p + 1, 2 * p - 1, 2 * p + 1, 3 * p + 2, 100, 97};
    if (p > 2) pool.push_back(p / 2);
    std::vector<std::size_t> calls;
    std::size_t n = rng.range(2, 5);
    for (std::size_t i = 0; i < n; ++i) calls.push_back(pool[rng.below(pool.size())]);
    shim_case(rng, P, calls, integrator);
}
#endif

void vfh_selftest() {}
