// C01 - sampling weights make every integrator an unbiased estimator.
// The integrators are driven by an equidistributed midpoint lattice (ScriptEngine) instead of random numbers;
// every integrand the midpoint rule integrates exactly must then be integrated exactly (to rounding), whatever
// grid or channel weights adaptation has produced.  Plus a per-call weight monitor for multi-channel points.
#include "vf_main.hpp"
#include "ref.hpp"
#include "hep/mc.hpp"

typedef VF_T T;
using namespace vf;

namespace
{

// ---- lattice scripts ------------------------------------------------------------------------------
// tensor midpoint lattice with M[k] points in dimension k; returns number of points
std::size_t lattice_script(std::shared_ptr<Script> const& s, std::vector<std::size_t> const& M)
{
    std::size_t d = M.size(), N = 1;
    for (std::size_t m : M) N *= m;
    s->raw.clear();
    s->raw.reserve(N * d);
    std::vector<std::size_t> j(d, 0);
    for (std::size_t p = 0; p < N; ++p)
    {
        for (std::size_t k = 0; k < d; ++k) s->raw.push_back(raw_of(((LD)j[k] + 0.5L) / M[k]));
        for (std::size_t k = 0; k < d; ++k) { if (++j[k] < M[k]) break; j[k] = 0; }
    }
    return N;
}

// ---- integrands -----------------------------------------------------------------------------------
struct Lin
{
    std::vector<T> a, c;       // f = prod (a_i + c_i x_i)
    long bin_dim = -1;         // VEGAS only: restrict to points whose bin in dimension bin_dim is `bin`
    std::size_t bin = 0;
};
Lin const* g_lin = 0;
std::vector<std::size_t>* g_channel_hits = 0;
struct WeightCheck { std::vector<LD> alpha; std::vector<std::vector<LD>> v; std::size_t K; bool bad; std::string what; std::uint64_t checked; };
WeightCheck* g_wc = 0;

T lin_value(std::vector<T> const& x)
{
    T v = T(1);
    for (std::size_t i = 0; i < x.size(); ++i) v *= g_lin->a[i] + g_lin->c[i] * x[i];
    return v;
}

T f_plain(hep::mc_point<T> const& p) { return lin_value(p.point()); }

T f_vegas(hep::vegas_point<T> const& p)
{
    if (g_lin->bin_dim >= 0 && p.bin()[g_lin->bin_dim] != g_lin->bin) return T();
    if (g_lin->bin_dim >= 0) { std::size_t i = g_lin->bin_dim; return g_lin->a[i] + g_lin->c[i] * p.point()[i]; }
    return lin_value(p.point());
}

// ---- dyadic multi-channel map -----------------------------------------------------------------------
// every channel has, per dimension, a piecewise constant density on K equal cells with values v[c] (multiples of
// 1/2, mean 1); common position dependent jacobian J(x) = 1 + x_0
struct DyadicMap
{
    std::size_t K;
    std::vector<std::vector<T>> v;      // v[channel][cell]
    bool with_jacobian;
    bool eager;                         // fill the density buffer while computing the coordinates (allowed by the interface)
    int coord_return;                   // what the coordinates call returns (documented as ignored): 0 jacobian, 1 zero, 2 NaN, 3 -1
    void fill(std::vector<T> const& co, std::vector<std::size_t> const& enabled, std::vector<T>& dens) const
    {
        T J = with_jacobian ? T(1) + co[0] : T(1);
        for (std::size_t j : enabled)
        {
            T p = T(1);
            for (std::size_t k = 0; k < co.size(); ++k) p *= v[j][std::min<std::size_t>(K - 1, (std::size_t)(co[k] * T(K)))];
            dens[j] = J * p;
        }
    }
    T operator()(std::size_t channel, std::vector<T> const& rn, std::vector<T>& co, std::vector<std::size_t> const& enabled, std::vector<T>& dens,
        hep::multi_channel_map action) const
    {
        if (action == hep::multi_channel_map::calculate_coordinates)
        {
            for (std::size_t k = 0; k < co.size(); ++k)
            {
                T r = rn[k], cum = T();
                std::size_t c = 0;
                for (; c + 1 < K; ++c) { T m = v[channel][c] / T(K); if (r < cum + m) break; cum += m; }
                co[k] = (T(c) + (r - cum) / (v[channel][c] / T(K))) / T(K);
            }
            if (eager) fill(co, enabled, dens);
            if (coord_return == 1) return T();
            if (coord_return == 2) return std::numeric_limits<T>::quiet_NaN();
            if (coord_return == 3) return T(-1);
            return with_jacobian ? T(1) + co[0] : T(1);
        }
        if (!eager) fill(co, enabled, dens);
        return with_jacobian ? T(1) + co[0] : T(1);
    }
};

T f_mc(hep::multi_channel_point<T> const& p)
{
    ++(*g_channel_hits)[p.channel()];
    T f = lin_value(p.coordinates());
    // per-call weight monitor: the reported weight is 1 / sum_j alpha_j p_j(x) (the common jacobian cancels)
    if (g_wc)
    {
        WeightCheck& w = *g_wc;
        T got = p.weight();
        LD tot = 0;
        for (std::size_t j = 0; j < w.alpha.size(); ++j)
        {
            LD pj = 1;
            for (T x : p.coordinates()) { std::size_t c = std::min<std::size_t>(w.K - 1, (std::size_t)((LD)x * w.K)); pj *= w.v[j][c]; }
            tot += w.alpha[j] * pj;
        }
        ++w.checked;
        if (!close_rel<T>(got, 1.0L / tot, 16 * (w.alpha.size() + 2)) && !w.bad) { w.bad = true; char b[200]; std::snprintf(b, sizeof b, "weight %.12Lg expected %.12Lg channel %zu", (LD)got, 1.0L / tot, p.channel()); w.what = b; }
    }
    return f;
}

Lin make_lin(Rng& rng, std::size_t d)
{
    Lin l;
    for (std::size_t i = 0; i < d; ++i) { l.a.push_back(T(0.5L + rng.u01l())); l.c.push_back(T(rng.u01l() * 3)); }
    return l;
}

LD lin_integral(Lin const& l)
{
    LD I = 1;
    for (std::size_t i = 0; i < l.a.size(); ++i) I *= (LD)l.a[i] + (LD)l.c[i] / 2;
    return I;
}

// ---- VEGAS / PLAIN cases ----------------------------------------------------------------------------
hep::vegas_pdf<T> adapted_grid(Rng& rng, std::size_t dims, std::size_t bins, std::string& kind)
{
    hep::vegas_pdf<T> pdf(dims, bins);
    unsigned k = rng.below(5);
    if (k == 0) { kind = "uniform"; return pdf; }
    if (k == 4)
    {
        // every interior boundary of the uniform grid moved by the same amount: the interior bins keep the width 1/bins exactly
        // (dyadic bin counts) but are not where the uniform grid has them
        kind = "uniform-grid-with-shifted-interior-boundaries";
        for (std::size_t d = 0; d < dims; ++d)
        {
            T shift = (T(1) / T(bins)) * (rng.below(2) ? T(0.5) : T(-0.25));
            for (std::size_t b = 1; b < bins; ++b) pdf.set_bin_left(d, b, T(b) / T(bins) + shift);
        }
        return pdf;
    }
    if (k == 1 || k == 2)
    {
        kind = k == 1 ? "random-user-grid" : "user-grid-with-narrow-and-zero-width-bins";
        for (std::size_t d = 0; d < dims; ++d)
        {
            std::vector<T> x(bins + 1);
            for (auto& v : x) v = T(rng.u01l());
            if (k == 2) for (std::size_t i = 1; i + 1 < x.size(); ++i) { if (rng.below(3) == 0) x[i] = x[i - 1]; else if (rng.below(3) == 0) x[i] = x[i - 1] + T(1e-6) * T(rng.u01l()); }
            x[0] = T(0); x[bins] = T(1);
            for (auto& v : x) v = std::fmin(v, T(1));
            std::sort(x.begin(), x.end());
            for (std::size_t b = 0; b <= bins; ++b) pdf.set_bin_left(d, b, x[b]);
        }
        return pdf;
    }
    // grid produced by the library itself: 1..8 adaptive iterations on a peaked integrand, then frozen
    kind = "library-adapted";
    struct Peak { T c, w; T operator()(hep::vegas_point<T> const& p) const { T v = T(1); for (T x : p.point()) { T z = (x - c) / w; v *= std::exp(-z * z); } return v + T(1e-3); } };
    Peak pk = {T(0.1L + 0.8L * rng.u01l()), std::ldexp(T(1), -int(rng.range(2, 8)))};
    typedef hep::vegas_chkpt_with_rng<std::mt19937, T> C;
    struct Go { bool operator()(C const&) const { return true; } };
    C r = hep::vegas(hep::make_integrand<T>(pk, dims), std::vector<std::size_t>(rng.range(1, 8), 2000), C(std::mt19937((unsigned)rng.next()), bins, T(3 * rng.u01l())), Go());
    return r.pdf();
}

void vegas_case(Rng& rng, bool plain)
{
    static const std::size_t bin_choices[] = {2, 3, 4, 5, 8, 16, 128};
    std::size_t d = rng.range(1, 3);
    std::size_t bins = bin_choices[rng.below(7)];
    if (d == 3 && bins > 8) bins = 8;
    if (d == 2 && bins > 16) bins = 16;
    std::size_t m = d == 1 ? rng.range(1, 8) : d == 2 ? rng.range(1, 4) : rng.range(1, 2);
    std::vector<std::size_t> M(d, plain ? rng.range(3, 20) : bins * m);
    auto script = std::make_shared<Script>();
    std::size_t N = lattice_script(script, M);
    if (N > 40000) { count("skipped_too_large"); return; }
    ScriptEngine::current() = script;
    Lin lin = make_lin(rng, d);
    bool huge = rng.below(6) == 0;
    if (huge)
    {
        // values above sqrt(max): their squares overflow (the sum of squares legitimately becomes inf), the estimate itself stays exact
        T S = std::ldexp(T(1), std::numeric_limits<T>::max_exponent / 2 + 2);
        lin.a[0] *= S; lin.c[0] *= S;
        count("lattices_with_values_above_sqrt_max");
    }
    std::string gkind = "n/a";
    hep::vegas_pdf<T> pdf(d, bins);
    if (!plain) pdf = adapted_grid(rng, d, bins, gkind);
    bool restricted = !plain && rng.below(2);
    if (restricted) { lin.bin_dim = (long)rng.below(d); lin.bin = rng.below(bins); }
    g_lin = &lin;
    ScriptEngine eng(script);
    LD I, est, scale;
    J info;
    info.s("T", tname<T>::get()).s("integrator", plain ? "plain" : "vegas").u("dims", d).u("bins", bins).u("lattice_points", N).s("grid", gkind).b("bin_restricted", restricted).b("values_above_sqrt_max", huge)
        .fv("a", lin.a).fv("c", lin.c);
    if (plain)
    {
        auto r = hep::plain_iteration(hep::make_integrand<T>(f_plain, d), N, eng);
        est = r.value(); I = lin_integral(lin); scale = I;
    }
    else
    {
        auto r = hep::vegas_iteration(hep::make_integrand<T>(f_vegas, d), N, pdf, eng);
        est = r.value();
        if (restricted)
        {
            LD l = pdf.bin_left(lin.bin_dim, lin.bin), rr = pdf.bin_left(lin.bin_dim, lin.bin + 1);
            LD a = lin.a[lin.bin_dim], c = lin.c[lin.bin_dim];
            I = (rr - l) * (a + c * (rr + l) / 2);     // well conditioned for very narrow bins
            scale = (std::fabs(a) + std::fabs(c)) * std::fmax(rr - l, 0.0L) + (LD)std::numeric_limits<T>::min();
            info.i("bin_dim", lin.bin_dim).u("bin", lin.bin).f("bin_left", (T)l).f("bin_right", (T)rr);
        }
        else { I = lin_integral(lin); scale = I; }
    }
    g_lin = 0;
    ++ctx().evaluations;
    count(plain ? "plain_lattices" : "vegas_lattices");
    count("lattice_points", N);
    LD tol = 256 * (d + 2) * eps<T>() * scale;
    if (!(std::fabs(est - I) <= tol))
        viol(std::string(plain ? "plain" : "vegas") + ":lattice-estimate-differs-from-exact-integral" + (restricted ? ":bin-restricted" : "") + ":" + gkind,
            J(info).f("estimate", est).f("integral", I).f("tol", tol));
    bool uniform = plain || gkind == "uniform";
    if (!uniform) nontrivial(hash_str(info.str()));
    sample(info, 4);
}

// ---- per-call weight monitor for VEGAS in any dimension (a tensor lattice is impossible beyond a few dimensions) ----
void vegas_weight_case(Rng& rng)
{
    static const std::size_t bin_choices[] = {2, 5, 16, 128, 128, 1000};
    std::size_t d = rng.below(2) ? rng.range(1, 8) : rng.range(9, 40);
    std::size_t bins = bin_choices[rng.below(6)];
    hep::vegas_pdf<T> pdf(d, bins);
    bool uniform = rng.below(3) == 0;
    if (!uniform)
        for (std::size_t k = 0; k < d; ++k)
        {
            std::vector<T> x(bins + 1);
            for (auto& v : x) v = T(rng.u01l());
            x[0] = T(0); x[bins] = T(1);
            std::sort(x.begin(), x.end());
            for (std::size_t b = 0; b <= bins; ++b) pdf.set_bin_left(k, b, x[b]);
        }
    J info;
    info.s("T", tname<T>::get()).u("dims", d).u("bins", bins).b("uniform_grid", uniform);
    for (int rep = 0; rep < 50; ++rep)
    {
        std::vector<T> u(d);
        for (auto& v : u) v = T(rng.u01l());
        std::vector<T> x = u;
        std::vector<std::size_t> bin(d);
        T w = hep::vegas_icdf(pdf, x, bin);
        LD ref = 1;
        for (std::size_t k = 0; k < d; ++k)
        {
            if (bin[k] >= bins) { viol("vegas:bin-index-out-of-range", info); return; }
            ref *= (LD)bins * ((LD)pdf.bin_left(k, bin[k] + 1) - (LD)pdf.bin_left(k, bin[k]));
        }
        count("vegas_weights_checked");
        if (d > 8) count("vegas_weights_checked_in_more_than_8_dimensions");
        // a weight outside the range of T is legitimately inf / 0 / denormal: not judged
        if (!(ref < (LD)std::numeric_limits<T>::max() / 4) || !(ref > (LD)std::numeric_limits<T>::min() * 4)) { count("vegas_weights_out_of_range_unjudged"); continue; }
        if (!close_rel<T>(w, ref, 8 * (d + 1))) { viol("vegas:reported-weight-is-not-prod(bins*width)", J(info).f("weight", w).f("expected", ref)); return; }
    }
    ++ctx().evaluations;
    nontrivial(hash_str(info.str()));
}

// ---- multi channel ------------------------------------------------------------------------------------
void mc_case(Rng& rng)
{
    std::size_t d = rng.range(1, 2), K = rng.below(2) ? 2 : 4, n = rng.range(1, 6);
    DyadicMap map;
    map.K = K;
    map.with_jacobian = rng.below(2);
    map.eager = rng.below(2);
    map.coord_return = (int)rng.below(4);
    for (std::size_t i = 0; i < n; ++i)
    {
        // values multiples of 1/2 with mean exactly 1
        std::vector<T> v(K, T(1));
        for (std::size_t t = 0; t < K; ++t) { std::size_t a = rng.below(K), b = rng.below(K); if (a != b && v[a] > T(0.5)) { v[a] -= T(0.5); v[b] += T(0.5); } }
        map.v.push_back(v);
    }
    // channel weights: dyadic aligned to the lattice, arbitrary (adapted-like), with zeros, or produced by the library
    std::vector<T> w(n);
    std::string wkind;
    unsigned wk = rng.below(4);
    std::size_t Ms = 64;
    if (wk == 0) { wkind = "dyadic"; std::size_t left = 64; for (std::size_t i = 0; i < n; ++i) { std::size_t k = i + 1 == n ? left : rng.below(left + 1); w[i] = T(k) / T(64); left -= k; } }
    else if (wk == 1) { wkind = "arbitrary"; for (auto& x : w) x = T(rng.u01l() + 0.05L); }
    else if (wk == 2) { wkind = "with-zeros"; for (auto& x : w) x = rng.below(2) ? T(rng.u01l() + 0.05L) : T(); }
    else
    {
        wkind = "library-produced(min_weight,user-weights)";
        std::vector<T> user(n);
        for (auto& x : user) x = rng.below(4) ? T(rng.u01l() + 0.01L) : T();
        bool any = false;
        for (T x : user) any = any || x != T();
        if (!any) user[0] = T(1);
        typedef hep::multi_channel_chkpt_with_rng<std::mt19937, T> C;
        C chk(std::mt19937(), user, T(rng.u01l() * 0.9L / n), T(0.25));
        chk.channels(n);
        w = chk.channel_weights();
    }
    {
        bool any = false;
        for (T x : w) any = any || x != T();
        if (!any) w[rng.below(n)] = T(1);
        if (wk != 3) { LD s = 0; for (T x : w) s += x; for (auto& x : w) x = T((LD)x / s); }
    }
    std::size_t Mr = 8 * rng.range(1, d == 1 ? 6 : 2);
    if (wk == 3 && d == 2) Mr = 8;
    if (wk != 0) Ms = rng.range(16, 97);
    if (wk == 3) Ms = 512;       // fine selector lattice: the estimate must then also be close to the integral itself
    std::vector<std::size_t> M(d, Mr);
    M.push_back(Ms);
    auto script = std::make_shared<Script>();
    std::size_t N = lattice_script(script, M);
    ScriptEngine::current() = script;
    ScriptEngine eng(script);
    Lin lin = make_lin(rng, d);
    g_lin = &lin;
    std::vector<std::size_t> hits(n, 0);
    g_channel_hits = &hits;
    WeightCheck wc;
    wc.K = K; wc.bad = false; wc.checked = 0;
    LD sw = 0;
    for (T x : w) sw += x;
    for (std::size_t j = 0; j < n; ++j) { wc.alpha.push_back((LD)w[j]); wc.v.push_back(std::vector<LD>(map.v[j].begin(), map.v[j].end())); }
    bool ask = rng.below(2);
    g_wc = ask ? &wc : 0;
    auto integrand = hep::make_multi_channel_integrand<T>(f_mc, d, map, d, n);
    auto r = hep::multi_channel_iteration(integrand, N, w, eng);
    g_lin = 0; g_channel_hits = 0; g_wc = 0;
    J info;
    info.s("T", tname<T>::get()).s("integrator", "multi_channel").u("dims", d).u("cells", K).u("channels", n).s("weights_kind", wkind).fv("weights", w).b("jacobian", map.with_jacobian).b("eager_map", map.eager).i("coordinates_call_returns", map.coord_return)
        .u("lattice_points", N).fv("a", lin.a).fv("c", lin.c);
    ++ctx().evaluations;
    count("mc_lattices");
    count("lattice_points", N);
    if (ask) { count("mc_weights_checked_per_call", wc.checked); if (wc.bad) viol("mc:reported-weight-is-not-1/sum(alpha_j*p_j)", J(info).s("what", wc.what)); }
    // closed form: I_i = sum over cells of p_i,cell / (sum_j alpha_j p_j,cell) * integral of f over the cell
    std::size_t cells = 1;
    for (std::size_t k = 0; k < d; ++k) cells *= K;
    std::vector<LD> Ii(n, 0.0L);
    LD identity = 0;
    for (std::size_t cell = 0; cell < cells; ++cell)
    {
        std::vector<std::size_t> ci(d);
        std::size_t t = cell;
        for (std::size_t k = 0; k < d; ++k) { ci[k] = t % K; t /= K; }
        LD fint = 1;
        for (std::size_t k = 0; k < d; ++k) { LD l = (LD)ci[k] / K, rr = (LD)(ci[k] + 1) / K; fint *= (rr - l) * ((LD)lin.a[k] + (LD)lin.c[k] * (rr + l) / 2); }
        LD tot = 0;
        std::vector<LD> pj(n, 1.0L);
        for (std::size_t j = 0; j < n; ++j) { for (std::size_t k = 0; k < d; ++k) pj[j] *= map.v[j][ci[k]]; tot += (LD)w[j] * pj[j]; }
        for (std::size_t i = 0; i < n; ++i) Ii[i] += pj[i] / tot * fint;
        identity += fint;
    }
    // the harness' own identity: sum_i alpha_i I_i = integral of f (so that a harness error cannot masquerade as a pass)
    LD chk = 0;
    for (std::size_t i = 0; i < n; ++i) chk += (LD)w[i] * Ii[i];
    if (std::fabs(chk - identity) > 1e-12L * identity * (1 + std::fabs(sw - 1) * 1e12L) || std::fabs(identity - lin_integral(lin)) > 1e-15L * identity)
    {
        if (std::fabs(sw - 1) < 64 * eps<T>()) inconclusive("C01 harness identity sum_i alpha_i I_i = integral f failed");
    }
    LD expect = 0;
    for (std::size_t i = 0; i < n; ++i)
    {
        if (w[i] == T() && hits[i] != 0) { viol("mc:disabled-channel-sampled", J(info).u("channel", i)); return; }
        expect += (LD)hits[i] / (LD)(N) * Ii[i];
    }
    LD tol = 256 * (d + n + 2) * eps<T>() * std::fabs(expect);
    LD est = r.value();
    if (!(std::fabs(est - expect) <= tol))
        viol(std::string("mc:lattice-estimate-differs-from-closed-form:") + wkind, J(info).f("estimate", est).f("expected", expect).f("integral", identity).f("tol", tol).uv("channel_hits", hits));
    {
        // unbiasedness in the lattice sense: n_i/N differs from the selection probability by at most 1/Ms per channel
        LD bound = tol;
        for (std::size_t i = 0; i < n; ++i) bound += std::fabs(Ii[i]) / Ms;
        count("mc_lattices_checked_against_the_integral");
        if (!(std::fabs(est - identity) <= bound)) viol(std::string("mc:lattice-estimate-is-biased:") + wkind, J(info).f("estimate", est).f("integral", identity).f("bound", bound).f("sum_of_weights", sw));
    }
    if (wk == 0)
    {
        // dyadic weights aligned with the selector lattice: the estimate is the integral itself
        if (!(std::fabs(est - identity) <= tol)) viol("mc:lattice-estimate-differs-from-exact-integral:dyadic", J(info).f("estimate", est).f("integral", identity));
        count("mc_lattices_exact_integral");
    }
    nontrivial(hash_str(info.str()));
    sample(info, 6);
}

} // namespace

std::uint64_t vfh_num_cases(bool thorough) { return thorough ? 100000 : 420; }

void vfh_run_case(std::uint64_t idx, Rng& rng)
{
    switch (idx % 7)
    {
    case 6: vegas_weight_case(rng); break;
    case 0: vegas_case(rng, true); break;
    case 1: case 2: case 3: vegas_case(rng, false); break;
    default: mc_case(rng); break;
    }
}

void vfh_selftest()
{
    auto script = std::make_shared<Script>();
    std::vector<std::size_t> M(2, 3);
    if (lattice_script(script, M) != 9 || script->raw.size() != 18) inconclusive("lattice self-test");
    ScriptEngine e(script);
    T u = std::generate_canonical<T, std::numeric_limits<T>::digits>(e);
    if (!close_rel<T>(u, 1.0L / 6, 16)) inconclusive("lattice self-test: first midpoint");
}
