// C04 - real MPI (OpenMPI via mpirun): the MPI integrators against the serial integrators in the same process set.
// Every rank records a bit-exact signature of each point it evaluates; signatures are gathered on rank 0, which
// also runs the serial integrator and compares per iteration.  Output: JSON lines on rank 0.
//   mpirun -np P c04_mpi_real <seed> <scratch dir>
#include "vf.hpp"
#include "mcmap.hpp"
#include "hep/mc-mpi.hpp"

#include <mpi.h>

using namespace vf;

namespace
{

struct Rec { std::vector<std::uint64_t> sigs; std::vector<std::size_t> at_end; };
Rec* g_rec = 0;
std::uint64_t g_salt = 0;

template <typename T> std::uint64_t sig_point(std::vector<T> const& p, std::uint64_t extra)
{
    std::uint64_t h = extra;
    for (T x : p) h = mix(h, bits_hash(x));
    return h;
}

template <typename T> T value_of(std::vector<T> const& x, std::uint64_t h)
{
    T v = T(0.5);
    for (T xi : x) v *= T(0.3) + xi * xi;
    if (h % 7 == 0) return T();
    return (h & 8) ? v : -v;
}

template <typename T> T f_plain(hep::mc_point<T> const& p)
{
    std::uint64_t s = sig_point(p.point(), 1);
    g_rec->sigs.push_back(s);
    return value_of(p.point(), mix(s, g_salt));
}
template <typename T> T f_vegas(hep::vegas_point<T> const& p)
{
    std::uint64_t s = sig_point(p.point(), 2);
    for (std::size_t b : p.bin()) s = mix(s, b);
    g_rec->sigs.push_back(s);
    return value_of(p.point(), mix(s, g_salt));
}
template <typename T> T f_mc(hep::multi_channel_point<T> const& p)
{
    std::uint64_t s = mix(sig_point(p.point(), 3), p.channel());
    s = mix(s, sig_point(p.coordinates(), 4));
    g_rec->sigs.push_back(s);
    return value_of(p.coordinates(), mix(s, g_salt));
}

struct Mark
{
    template <typename C> bool operator()(MPI_Comm, C const&) { g_rec->at_end.push_back(g_rec->sigs.size()); return true; }
    template <typename C> bool operator()(C const&) { g_rec->at_end.push_back(g_rec->sigs.size()); return true; }
};

template <typename C> std::string text_of_chk(C const& c) { std::ostringstream o; c.serialize(o); return o.str(); }

int g_rank = 0, g_world = 1;
std::uint64_t g_runs = 0, g_points = 0, g_iterations = 0;
std::vector<std::uint64_t> g_sigs;

void rviol(std::string const& key, J const& d)
{
    if (g_rank == 0) { std::printf("{\"t\":\"viol\",\"key\":\"%s\",\"detail\":%s}\n", jesc(key).c_str(), d.str().c_str()); std::fflush(stdout); }
}

// gather the per-iteration signatures of all ranks on rank 0
std::vector<std::uint64_t> gather(std::vector<std::uint64_t> const& mine)
{
    int n = (int)mine.size();
    std::vector<int> counts(g_world), displs(g_world);
    MPI_Gather(&n, 1, MPI_INT, counts.data(), 1, MPI_INT, 0, MPI_COMM_WORLD);
    int total = 0;
    for (int r = 0; r < g_world; ++r) { displs[r] = total; total += counts[r]; }
    std::vector<std::uint64_t> all(g_rank == 0 ? total : 0);
    MPI_Gatherv(const_cast<std::uint64_t*>(mine.data()), n, MPI_UNSIGNED_LONG, all.data(), counts.data(), displs.data(), MPI_UNSIGNED_LONG, 0, MPI_COMM_WORLD);
    return all;
}

template <typename T, typename E, int INTEG> void one_run(Rng& rng, char const* tname_, char const* ename)
{
    std::size_t dims = rng.range(1, 3), bins = rng.range(2, 8), channels = rng.below(3) == 0 ? 1 : rng.range(2, 4);
    std::uint64_t p = g_world;
    std::vector<std::size_t> pool = {0, 1, p - 1, p, p + 1, 2 * p + 1, 97, 500};
    std::size_t n = rng.range(1, 3);
    std::vector<std::size_t> calls;
    for (std::size_t i = 0; i < n; ++i) calls.push_back(pool[rng.below(pool.size())]);
    g_salt = rng.next();
    E gen;
    gen.discard(rng.below(3000));
    PowerMap<T> map;
    for (std::size_t c = 0; c < channels; ++c) map.a.push_back(T(c) * T(0.75));
    static char const* names[] = {"mpi_plain", "mpi_vegas", "mpi_multi_channel"};
    J info;
    info.s("T", tname_).s("engine", ename).s("integrator", names[INTEG]).u("world", g_world).uv("calls", calls).u("dims", dims).u("channels", channels);
    Rec mrec, srec;
    std::string mtext, stext, mgen, sgen;
    std::vector<hep::plain_result<T>> mres, sres;
    g_rec = &mrec;
    if (INTEG == 0)
    {
        typedef hep::plain_chkpt_with_rng<E, T> C;
        C r = hep::mpi_plain(MPI_COMM_WORLD, hep::make_integrand<T>(f_plain<T>, dims), calls, C(gen), Mark());
        mtext = text_of_chk(r); mgen = to_text(r.generator());
        for (auto const& x : r.results()) mres.push_back(x);
        g_rec = &srec;
        if (g_rank == 0) { C s = hep::plain(hep::make_integrand<T>(f_plain<T>, dims), calls, C(gen), Mark()); stext = text_of_chk(s); sgen = to_text(s.generator()); for (auto const& x : s.results()) sres.push_back(x); }
    }
    else if (INTEG == 1)
    {
        typedef hep::vegas_chkpt_with_rng<E, T> C;
        C r = hep::mpi_vegas(MPI_COMM_WORLD, hep::make_integrand<T>(f_vegas<T>, dims), calls, C(gen, bins, T(1.5)), Mark());
        mtext = text_of_chk(r); mgen = to_text(r.generator());
        for (auto const& x : r.results()) mres.push_back(x);
        g_rec = &srec;
        if (g_rank == 0) { C s = hep::vegas(hep::make_integrand<T>(f_vegas<T>, dims), calls, C(gen, bins, T(1.5)), Mark()); stext = text_of_chk(s); sgen = to_text(s.generator()); for (auto const& x : s.results()) sres.push_back(x); }
    }
    else
    {
        typedef hep::multi_channel_chkpt_with_rng<E, T> C;
        C r = hep::mpi_multi_channel(MPI_COMM_WORLD, hep::make_multi_channel_integrand<T>(f_mc<T>, dims, map, dims, channels), calls, C(gen, T(0.01), T(0.25)), Mark());
        mtext = text_of_chk(r); mgen = to_text(r.generator());
        for (auto const& x : r.results()) mres.push_back(x);
        g_rec = &srec;
        if (g_rank == 0) { C s = hep::multi_channel(hep::make_multi_channel_integrand<T>(f_mc<T>, dims, map, dims, channels), calls, C(gen, T(0.01), T(0.25)), Mark()); stext = text_of_chk(s); sgen = to_text(s.generator()); for (auto const& x : s.results()) sres.push_back(x); }
    }
    g_rec = 0;
    // every rank returns the same checkpoint
    std::uint64_t h = hash_str(mtext), h0 = h;
    MPI_Bcast(&h0, 1, MPI_UNSIGNED_LONG, 0, MPI_COMM_WORLD);
    int same = h == h0, all_same = 0;
    MPI_Allreduce(&same, &all_same, 1, MPI_INT, MPI_MIN, MPI_COMM_WORLD);
    if (!all_same) rviol("ranks-return-different-checkpoints", info);
    ++g_runs;
    for (std::size_t k = 0; k < n; ++k)
    {
        std::size_t b = k == 0 ? 0 : mrec.at_end[k - 1], e = mrec.at_end[k];
        std::vector<std::uint64_t> mine(mrec.sigs.begin() + b, mrec.sigs.begin() + e);
        std::vector<std::uint64_t> all = gather(mine);
        if (g_rank != 0) continue;
        J inf = J(info).u("iteration", k);
        std::size_t sb = k == 0 ? 0 : srec.at_end[k - 1], se = srec.at_end[k];
        std::vector<std::uint64_t> ser(srec.sigs.begin() + sb, srec.sigs.begin() + se);
        ++g_iterations;
        g_points += all.size();
        // PLAIN samples independently of earlier sums; for the adaptive integrators the grids / weights of later
        // iterations may differ by reassociation of the adjustment data, so only iteration 0 is compared pointwise there
        bool comparable = INTEG == 0 || k == 0;
        if (all.size() != ser.size()) { rviol("number-of-evaluated-points-differs-from-serial", J(inf).u("mpi", all.size()).u("serial", ser.size())); continue; }
        if (comparable)
        {
            std::sort(all.begin(), all.end());
            std::sort(ser.begin(), ser.end());
            if (all != ser) { rviol("multiset-of-points-differs-from-serial", inf); continue; }
            hep::plain_result<T> const& m = mres[k];
            hep::plain_result<T> const& s = sres[k];
            if (m.calls() != s.calls() || m.non_zero_calls() != s.non_zero_calls() || m.finite_calls() != s.finite_calls()) { rviol("counters-differ-from-serial", inf); continue; }
            LD N = s.calls();
            LD sa = std::fabs((LD)s.sum()) + std::sqrt(N * std::fabs((LD)s.sum_of_squares()));
            if (!close_abs<T>(m.sum(), s.sum(), N + g_world + 4, sa) && !(std::isnan(m.sum()) && std::isnan(s.sum()))) rviol("sum-differs-beyond-reassociation", J(inf).f("mpi", m.sum()).f("serial", s.sum()));
        }
    }
    if (g_rank == 0)
    {
        if (mgen != sgen) rviol(std::string("stored-generator-differs-from-serial:") + names[INTEG], info);
        bool nontriv = false;
        for (auto c : calls) if (g_world >= 2 && (c % g_world != 0 || c < (std::size_t)g_world)) nontriv = true;
        if (nontriv) g_sigs.push_back(hash_str(info.str()));
    }
}

} // namespace

int main(int argc, char** argv)
{
    MPI_Init(&argc, &argv);
    MPI_Comm_rank(MPI_COMM_WORLD, &g_rank);
    MPI_Comm_size(MPI_COMM_WORLD, &g_world);
    std::uint64_t seed = argc > 1 ? std::strtoull(argv[1], 0, 10) : 1;
    Rng rng(mix(seed, 4242));      // identical stream on every rank
    for (int rep = 0; rep < 4; ++rep)
    {
        one_run<double, std::mt19937, 0>(rng, "double", "mt19937");
        one_run<double, std::mt19937, 1>(rng, "double", "mt19937");
        one_run<double, std::mt19937, 2>(rng, "double", "mt19937");
        one_run<float, std::minstd_rand, 0>(rng, "float", "minstd_rand");
        one_run<float, std::minstd_rand, 2>(rng, "float", "minstd_rand");
        one_run<long double, std::ranlux48, 1>(rng, "long double", "ranlux48");
        one_run<long double, std::ranlux48, 2>(rng, "long double", "ranlux48");
    }
    if (g_rank == 0)
    {
        std::string s = "[";
        for (std::size_t i = 0; i < g_sigs.size(); ++i) { if (i) s += ','; s += std::to_string(g_sigs[i]); }
        s += "]";
        std::printf("{\"t\":\"done\",\"runs\":%llu,\"points\":%llu,\"iterations\":%llu,\"sigs\":%s}\n", (unsigned long long)g_runs, (unsigned long long)g_points,
            (unsigned long long)g_iterations, s.c_str());
    }
    MPI_Finalize();
    return 0;
}
