// C02 - each iteration result is the documented estimator of exactly the sampled values.
// Offline oracle over the call log of the recording integrand/map: counters, exact sums of f*w and (f*w)^2,
// accessor formulas, VEGAS / multi-channel adjustment data.
#include "vf_main.hpp"
#include "rec.hpp"
#include "mcmap.hpp"
#include "hep/mc-mpi.hpp"

typedef VF_T T;
using namespace vf;

#ifndef VF_ENG
#define VF_ENG std::mt19937
#endif
typedef VF_ENG Eng;

namespace
{

struct Beh
{
    std::uint64_t salt;
    unsigned zero_pm, neg_pm, nonfinite_pm, huge_pm, denormal_pm;
    bool has_dist;
    T scale;
    T cut;
};

T value_fn(Beh const& b, CallEv<T>& e, Access<T>& a)
{
    std::uint64_t h = point_hash(e.point, b.salt);
    unsigned cls = h % 1000;
    T base = b.scale;
    for (T x : (e.kind == 2 ? e.coords : e.point)) base *= (T(0.25) + x * x);
    if (b.has_dist && ((h >> 20) % 4) != 0) a.add(0, e.point[0], base);
    if (cls < b.zero_pm) return T();
    if (e.kind == 2 && e.coords[0] < b.cut && (h & 4)) { count("zero_values_where_weight_is_not_finite"); return T(); }
    if (cls < b.zero_pm + b.nonfinite_pm) return (h & 1) ? std::numeric_limits<T>::quiet_NaN() : -std::numeric_limits<T>::infinity();
    if (cls < b.zero_pm + b.nonfinite_pm + b.neg_pm) return -base;
    // denormal values (and products that become denormal) are finite values like any other
    if (((h >> 44) % 1000) < b.denormal_pm) { count("denormal_values"); return std::numeric_limits<T>::min() * T(0.25) * (T(1) + T((h >> 50) % 7)); }
    // finite value whose product with the weight overflows (only where the freely readable VEGAS weight
    // guarantees it, so that no finite product has an overflowing square)
    if (e.kind == 1 && e.weight > T(2.5) && ((h >> 30) % 1000) < b.huge_pm) { count("finite_values_with_non_finite_product"); return std::numeric_limits<T>::max() / T(2); }
    return base;
}

struct RunState
{
    Log<T> log;
    J info;
    int kind;
    bool mixed = false;
    std::size_t iterations_seen = 0;
};

void judge_common(RunState& r, hep::plain_result<T> const& res, std::vector<LD> const& fw, std::vector<bool> const& nonzero, std::size_t invocations)
{
    J const& info = r.info;
    std::size_t N = res.calls();
    count("iterations_judged");
    if (invocations != N) { viol("invocations!=calls", J(info).u("invocations", invocations).u("calls", N)); return; }
    std::size_t nz = 0, fin = 0;
    ExactSum s, s2, sa, s2a;
    for (std::size_t i = 0; i < fw.size(); ++i)
    {
        if (!nonzero[i]) continue;
        ++nz;
        if (!std::isfinite((T)fw[i])) continue;     // the product as the library forms it in T
        ++fin;
        T vt = (T)fw[i];
        T sq = vt * vt;                   // the square as formed in T (it may underflow for denormal values)
        LD v = vt;
        s.add(v); sa.add(std::fabs(v)); s2.add(sq); s2a.add(sq);
    }
    if (res.non_zero_calls() != nz) { viol("non_zero_calls", J(info).u("reported", res.non_zero_calls()).u("observed", nz)); return; }
    if (res.finite_calls() != fin) { viol("finite_calls", J(info).u("reported", res.finite_calls()).u("observed", fin)); return; }
    LD tol1 = (N + 16) * eps<T>() * sa.value(), tol2 = (N + 16) * eps<T>() * s2a.value() * 3;
    if (!(std::fabs((LD)res.sum() - s.value()) <= tol1)) { viol("sum", J(info).f("reported", res.sum()).f("exact", s.value()).f("tol", tol1)); return; }
    if (!(std::fabs((LD)res.sum_of_squares() - s2.value()) <= tol2)) { viol("sum_of_squares", J(info).f("reported", res.sum_of_squares()).f("exact", s2.value()).f("tol", tol2)); return; }
    if (N >= 1)
    {
        LD E = (LD)res.sum() / N;
        if (!close_rel<T>(res.value(), E, 4)) { viol("value!=sum/N", J(info).f("value", res.value()).f("expected", E)); return; }
    }
    if (N >= 2)
    {
        LD S = res.sum(), Q = res.sum_of_squares();
        LD var = (Q / N - (S / N) * (S / N)) / (N - 1);
        LD scale = (std::fabs(Q) / N + (S / N) * (S / N)) / (N - 1);
        if (!close_abs<T>(res.variance(), var, 8, scale)) { viol("variance-formula", J(info).f("variance", res.variance()).f("expected", var).u("N", N)); return; }
        T v = res.variance(), e = res.error();
        if (v >= T()) { if (!close_rel<T>(e, std::sqrt((LD)v), 4)) { viol("error!=sqrt(variance)", J(info).f("error", e).f("variance", v)); return; } }
        else if (!std::isnan(e)) { viol("error-of-negative-variance-not-nan", J(info).f("error", e)); return; }
    }
    if (nz > 0 && nz < N && N >= 2) r.mixed = true;
}

// fw for the call as the library forms it: T(f) * T(w) in T
void collect(RunState& r, std::vector<T> const* weights, std::vector<LD>& fw, std::vector<bool>& nonzero, std::vector<LD>& wts,
    std::vector<std::vector<T>>* dens)
{
    Log<T>& log = r.log;
    // last density event per call (multi channel): walk the sequence
    std::vector<long> last_dens(log.calls.size(), -1);
    long cur = -1;
    for (auto const& s : log.seq)
    {
        if (s.type == EV_INT_BEGIN) cur = (long)s.idx;
        else if (s.type == EV_MAP_DENS && cur >= 0) last_dens[cur] = (long)s.idx;
        else if (s.type == EV_MAP_COORD) cur = -1;
    }
    for (std::size_t i = 0; i < log.calls.size(); ++i)
    {
        CallEv<T> const& c = log.calls[i];
        T f = c.value, w = T(1);
        if (c.kind == 1) w = c.weight;
        if (c.kind == 2)
        {
            w = std::numeric_limits<T>::quiet_NaN();
            if (last_dens[i] >= 0)
            {
                MapEv<T> const& d = log.maps[last_dens[i]];
                T total = T();
                for (std::size_t j = 0; j < weights->size(); ++j) total += (*weights)[j] * d.dens_out[j];
                w = d.jacobian / total;
                if (dens) (*dens)[i] = d.dens_out;
            }
        }
        nonzero.push_back(f != T());
        fw.push_back(f != T() ? (LD)(T)(f * w) : 0.0L);
        wts.push_back(w);
    }
}

struct Cb
{
    RunState* r;
    template <typename C> bool operator()(C const& chk) { judge(chk.results().back()); r->log.clear(); ++r->iterations_seen; return true; }

    void judge_dists(hep::plain_result<T> const& res, std::vector<LD> const& wts)
    {
        // distribution 0: 4 bins on [0,1): every bin reports the full number of calls; its sum is the sum of value*w of the adds
        if (res.distributions().empty()) return;
        auto const& bins = res.distributions()[0].results();
        std::vector<ExactSum> bs(bins.size()), bsa(bins.size());
        std::vector<std::size_t> bn(bins.size());
        for (std::size_t i = 0; i < r->log.calls.size(); ++i)
            for (auto const& a : r->log.calls[i].adds)
            {
                T v = a.value * (T)wts[i];
                if (!std::isfinite(v)) continue;
                std::size_t b = (std::size_t)(a.x * 4);
                if (a.x < T(0) || b >= bins.size()) continue;
                bs[b].add(v); bsa[b].add(std::fabs(v)); ++bn[b];
            }
        for (std::size_t b = 0; b < bins.size(); ++b)
        {
            count("bins_judged");
            if (bins[b].calls() != res.calls()) { viol("bin-calls!=iteration-calls", J(r->info).u("bin", b).u("bin_calls", bins[b].calls()).u("calls", res.calls())); return; }
            LD area = 0.25L;
            if (!close_abs<T>((LD)bins[b].sum() * area, bs[b].value(), res.calls() + 16, bsa[b].value())) { viol("bin-sum", J(r->info).u("bin", b).f("reported_times_area", (LD)bins[b].sum() * area).f("exact", bs[b].value())); return; }
            if (bins[b].finite_calls() != bn[b]) { viol("bin-finite-calls", J(r->info).u("bin", b).u("reported", bins[b].finite_calls()).u("observed", bn[b])); return; }
        }
    }

    void judge(hep::plain_result<T> const& res)
    {
        std::vector<LD> fw, wts; std::vector<bool> nzv;
        collect(*r, 0, fw, nzv, wts, 0);
        judge_common(*r, res, fw, nzv, r->log.calls.size());
        judge_dists(res, wts);
    }
    void judge(hep::vegas_result<T> const& res)
    {
        std::vector<LD> fw, wts; std::vector<bool> nzv;
        collect(*r, 0, fw, nzv, wts, 0);
        judge_common(*r, res, fw, nzv, r->log.calls.size());
        judge_dists(res, wts);
        std::size_t bins = res.pdf().bins(), dims = res.pdf().dimensions();
        std::vector<ExactSum> adj(bins * dims);
        for (std::size_t i = 0; i < fw.size(); ++i)
        {
            if (!nzv[i] || !std::isfinite((T)fw[i])) continue;
            for (std::size_t j = 0; j < dims; ++j)
            {
                std::size_t b = r->log.calls[i].bin[j];
                if (b >= bins) { viol("bin-index-out-of-range", r->info); return; }
                T sq = (T)fw[i] * (T)fw[i];
                adj[j * bins + b].add(sq);
            }
        }
        if (res.adjustment_data().size() != bins * dims) { viol("vegas:adjustment-size", r->info); return; }
        for (std::size_t k = 0; k < adj.size(); ++k)
        {
            count("adjustment_entries_judged");
            if (!close_abs<T>(res.adjustment_data()[k], adj[k].value(), res.calls() + 16, adj[k].value()))
            {
                viol("vegas:adjustment-data", J(r->info).u("dim", k / bins).u("bin", k % bins).f("reported", res.adjustment_data()[k]).f("exact", adj[k].value()));
                return;
            }
        }
    }
    void judge(hep::multi_channel_result<T> const& res)
    {
        std::vector<LD> fw, wts; std::vector<bool> nzv;
        std::vector<std::vector<T>> dens(r->log.calls.size());
        collect(*r, &res.channel_weights(), fw, nzv, wts, &dens);
        judge_common(*r, res, fw, nzv, r->log.calls.size());
        judge_dists(res, wts);
        std::size_t n = res.channel_weights().size();
        std::vector<ExactSum> adj(n), adja(n);
        for (std::size_t i = 0; i < fw.size(); ++i)
        {
            if (!nzv[i] || !std::isfinite((T)fw[i])) continue;
            T v = (T)fw[i];
            T sq = v * v * (T)wts[i];
            for (std::size_t j = 0; j < n; ++j)
            {
                T term = dens[i][j] * sq;
                if (term != term) continue;   // the library would carry a NaN here as well; judged by C06
                adj[j].add(term); adja[j].add(std::fabs(term));
            }
        }
        for (std::size_t j = 0; j < n; ++j)
        {
            count("adjustment_entries_judged");
            T got = res.adjustment_data()[j];
            if (!std::isfinite((T)adja[j].value())) { count("non_finite_adjustment_unjudged"); continue; }
            if (!close_abs<T>(got, adj[j].value(), res.calls() + 4 * n + 32, adja[j].value()))
            {
                viol("mc:adjustment-data", J(r->info).u("channel", j).f("reported", got).f("exact", adj[j].value()));
                return;
            }
        }
    }
};

void run_case(Rng& rng, std::uint64_t idx)
{
    int kind = idx % 3;
    std::size_t dims = rng.range(1, 4);
    static const std::size_t ns[] = {0, 1, 2, 3, 5, 17, 100, 1000};
    std::size_t iters = rng.range(1, 4);
    std::vector<std::size_t> calls;
    for (std::size_t i = 0; i < iters; ++i) calls.push_back(rng.below(3) ? ns[rng.below(8)] : rng.range(2, 3000));
    Beh beh;
    beh.salt = rng.next();
    static const unsigned zs[] = {0, 100, 500, 900, 1000};
    beh.zero_pm = zs[rng.below(5)];
    beh.neg_pm = rng.below(2) ? 0 : 300;
    beh.nonfinite_pm = rng.below(4) == 0 ? 50 : 0;
    if (beh.zero_pm + beh.neg_pm + beh.nonfinite_pm > 1000) beh.neg_pm = 0;
    beh.has_dist = rng.below(2);
    beh.huge_pm = rng.below(2) == 0 ? 100 : 0;
    beh.denormal_pm = rng.below(3) == 0 ? 150 : 0;
    beh.cut = rng.below(2) ? T() : T(0.2);
    beh.scale = std::ldexp(T(1), int(rng.below(20)) - 10);
    RunState st;
    st.kind = kind;
    static char const* names[] = {"plain", "vegas", "multi_channel"};
    J info;
    info.s("T", tname<T>::get()).s("integrator", names[kind]).u("dims", dims).uv("calls", calls).u("zero_per_mille", beh.zero_pm).u("negative_per_mille", beh.neg_pm)
        .u("nonfinite_per_mille", beh.nonfinite_pm).u("huge_per_mille", beh.huge_pm).b("with_distribution", beh.has_dist).f("cut", beh.cut);
    st.info = info;
    RecIntegrand<T> f;
    f.log = &st.log;
    f.fn = [beh](CallEv<T>& e, Access<T>& a) { return value_fn(beh, e, a); };
    Cb cb = {&st};
    Eng eng;
    eng.discard(rng.below(100000));
    if (kind == 0)
    {
        typedef hep::plain_chkpt_with_rng<Eng, T> chk_t;
        if (beh.has_dist) hep::plain(hep::make_integrand<T>(f, dims, hep::make_dist_params<T>(4, T(0), T(1), "d")), calls, chk_t(eng), cb);
        else hep::plain(hep::make_integrand<T>(f, dims), calls, chk_t(eng), cb);
    }
    else if (kind == 1)
    {
        std::size_t bins = rng.range(2, 12);
        typedef hep::vegas_chkpt_with_rng<Eng, T> chk_t;
        if (beh.has_dist) hep::vegas(hep::make_integrand<T>(f, dims, hep::make_dist_params<T>(4, T(0), T(1), "d")), calls, chk_t(eng, bins, T(1.5)), cb);
        else hep::vegas(hep::make_integrand<T>(f, dims), calls, chk_t(eng, bins, T(1.5)), cb);
    }
    else
    {
        std::size_t channels = rng.range(1, 5);
        PowerMap<T> pm;
        for (std::size_t c = 0; c < channels; ++c) pm.a.push_back(T(rng.below(4)) * T(0.5));
        pm.jac = rng.below(2) ? T() : T(0.5);
        pm.cut = beh.cut;
        std::vector<T> w(channels);
        for (auto& x : w) x = rng.below(4) ? T(rng.range(1, 9)) : T();
        bool any = false;
        for (T x : w) any = any || x != T();
        if (!any) w[rng.below(channels)] = T(1);
        bool all_enabled = true;
        for (T x : w) all_enabled = all_enabled && x != T();
        pm.fill_all = rng.below(2);      // half of the maps populate the densities of the disabled channels as well
        if (pm.fill_all && !all_enabled) count("mc_runs_with_densities_written_for_disabled_channels");
        RecMap<T, PowerMap<T>> map = {&st.log, pm};
        typedef hep::multi_channel_chkpt_with_rng<Eng, T> chk_t;
        if (beh.has_dist)
            hep::multi_channel(hep::make_multi_channel_integrand<T>(f, dims, map, dims, channels, hep::make_dist_params<T>(4, T(0), T(1), "d")), calls,
                chk_t(eng, w, T(), T(0.25)), cb);
        else
            hep::multi_channel(hep::make_multi_channel_integrand<T>(f, dims, map, dims, channels), calls, chk_t(eng, w, T(), T(0.25)), cb);
    }
    if (st.iterations_seen != calls.size()) viol("harness:callback-count", J(info).u("seen", st.iterations_seen));
    ++ctx().evaluations;
    count(std::string("runs_") + names[kind]);
    if (st.mixed) nontrivial(hash_str(info.str()));
    sample(info, 5);
}

} // namespace

// value / variance / error formulas on constructed results, for call numbers far beyond what a run can afford
void accessor_case(Rng& rng)
{
    for (int rep = 0; rep < 200; ++rep)
    {
        std::size_t N;
        switch (rng.below(5))
        {
        case 0: N = rng.range(2, 1000); break;
        case 1: N = (std::size_t(1) << 32) + rng.range(0, 5); break;
        case 2: N = std::size_t(1) << rng.range(33, 62); break;
        case 3: N = rng.next() >> rng.below(30); if (N < 2) N = 2; break;
        default: N = rng.range(2, 4000000000ULL); break;
        }
        if (std::is_same<T, float>::value && N > (std::size_t(1) << 24)) N = (N >> 40) + 2;     // T(N) must be exact enough
        LD E = (rng.below(2) ? 1 : -1) * std::pow(10.0L, (LD)rng.u01l() * 6 - 3);
        LD relS = std::pow(10.0L, -3 + 3 * rng.u01l());
        LD S = relS * std::fabs(E);
        T sum = T(E * N), sumsq = T((LD)N * (E * E + (LD)(N - 1) * S * S));
        if (!std::isfinite(sum) || !std::isfinite(sumsq)) continue;
        hep::mc_result<T> r(N, N, N, sum, sumsq);
        LD Sl = sum, Ql = sumsq, Nl = N;
        LD val = Sl / Nl, var = (Ql / Nl - val * val) / (Nl - 1);
        LD kappa = 1 + val * val / ((Nl - 1) * std::fabs(var));
        J info;
        info.s("T", tname<T>::get()).u("N", N).f("sum", sum).f("sum_of_squares", sumsq);
        count("constructed_results_checked");
        if (N > (std::size_t(1) << 32)) count("constructed_results_with_N>2^32");
        if (!close_rel<T>(r.value(), val, 4)) { viol("value!=sum/N", J(info).f("value", r.value()).f("expected", val)); return; }
        if (kappa * eps<T>() * 64 > 0.05L) continue;
        if (!close_rel<T>(r.variance(), var, 8 + 16 * kappa)) { viol("variance-formula", J(info).f("variance", r.variance()).f("expected", var).f("kappa", kappa)); return; }
        if (var > 0 && !close_rel<T>(r.error(), std::sqrt(var), 8 + 16 * kappa)) { viol("error!=sqrt(variance)", J(info).f("error", r.error()).f("expected", std::sqrt(var))); return; }
    }
    ++ctx().evaluations;
}

// one MPI iteration with more evaluations than a float can count (2^24 + 3 on two shim ranks): the counters of the reduced result are exact
T never_zero(hep::mc_point<T> const& p) { return T(0.5) + p.point()[0]; }
struct GoOnMpi2 { template <typename C> bool operator()(MPI_Comm, C const&) const { return true; } };

void mpi_counter_case()
{
    std::size_t const N = (std::size_t(1) << 24) + 3;
    std::vector<hep::plain_result<T>> res(2, hep::plain_result<T>(std::vector<hep::distribution_result<T>>(), 0, 0, 0, T(), T()));
    VfWorld world;
    vf_mpi_run(world, 2, 5, [&](int rank, MPI_Comm comm) {
        typedef hep::plain_chkpt_with_rng<std::mt19937, T> C;
        C r = hep::mpi_plain(comm, hep::make_integrand<T>(never_zero, 1), std::vector<std::size_t>(1, N), C(std::mt19937(3)), GoOnMpi2());
        res[rank] = r.results()[0];
    });
    J info;
    info.s("T", tname<T>::get()).s("integrator", "mpi_plain").u("calls", N).i("ranks", 2);
    ++ctx().evaluations;
    count("mpi_iterations_with_more_than_2^24_evaluations");
    if (world.aborted) { viol("mpi:collective-mismatch-or-hang", info); return; }
    for (int r = 0; r < 2; ++r)
        if (res[r].calls() != N || res[r].non_zero_calls() != N || res[r].finite_calls() != N)
        { viol("mpi:counters-of-the-reduced-result", J(info).i("rank", r).u("reported_calls", res[r].calls()).u("non_zero_calls", res[r].non_zero_calls()).u("finite_calls", res[r].finite_calls())); return; }
    nontrivial(hash_str(info.str()));
}

std::uint64_t vfh_num_cases(bool thorough) { return thorough ? 20000 : 300; }
void vfh_run_case(std::uint64_t idx, Rng& rng) { if (idx == 7) mpi_counter_case(); else if (idx % 10 == 9) accessor_case(rng); else run_case(rng, idx); }
void vfh_selftest() {}
