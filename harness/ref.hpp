// Reference models written from the documentation / property text in long double (DESIGN 3.4).
// None of this copies the library's loops.
#ifndef VF_REF_HPP
#define VF_REF_HPP

#include "vf.hpp"

namespace vf
{



// ---- VEGAS -------------------------------------------------------------------------------------
// smoothed, damped importance of the old bins of one dimension
inline std::vector<LD> vegas_importance(std::vector<LD> const& d, LD alpha, bool& all_zero)
{
    std::size_t n = d.size();
    std::vector<LD> s(n);
    if (n == 1) s[0] = d[0];
    else
    {
        s[0] = (d[0] + d[1]) / 2;
        s[n - 1] = (d[n - 2] + d[n - 1]) / 2;
        for (std::size_t i = 1; i + 1 < n; ++i) s[i] = (d[i - 1] + d[i] + d[i + 1]) / 3;
    }
    LD norm = 0;
    for (LD x : s) norm += x;
    all_zero = !(norm > 0);
    std::vector<LD> imp(n, 0.0L);
    if (all_zero) return imp;
    for (std::size_t i = 0; i < n; ++i)
    {
        if (s[i] == 0) continue;
        LD r = s[i] / norm;
        if (r >= 1.0L) { imp[i] = 1.0L; continue; } // limit of (r-1)/ln r for r -> 1
        imp[i] = std::pow((r - 1.0L) / std::log(r), alpha);
    }
    return imp;
}

// smallest non-zero smoothed value or share r (to detect underflow-prone inputs in the type under test: a datum of denorm_min
// among normal data is smoothed to (0 + denorm_min + 0)/3 = 0 in T, whereas the reference keeps it)
inline LD vegas_min_share(std::vector<LD> const& d)
{
    std::size_t n = d.size();
    std::vector<LD> s(n);
    if (n == 1) s[0] = d[0];
    else
    {
        s[0] = (d[0] + d[1]) / 2;
        s[n - 1] = (d[n - 2] + d[n - 1]) / 2;
        for (std::size_t i = 1; i + 1 < n; ++i) s[i] = (d[i - 1] + d[i] + d[i + 1]) / 3;
    }
    LD norm = 0, m = 1;
    for (LD x : s) norm += x;
    if (!(norm > 0)) return 1;
    for (LD x : s) if (x > 0) m = std::fmin(m, std::fmin(x, x / norm));
    return m;
}

// mass strictly left of x (lo) and including zero-width old bins sitting at x (hi) under the piecewise
// constant density imp_b / width_b on the old grid g (g.size() == imp.size() + 1); also the local density
inline void vegas_cdf(std::vector<LD> const& g, std::vector<LD> const& imp, LD x, LD& lo, LD& hi, LD& dens)
{
    lo = 0; hi = 0; dens = 0;
    LD extra = 0;
    for (std::size_t b = 0; b < imp.size(); ++b)
    {
        LD l = g[b], r = g[b + 1];
        if (r < x) { lo += imp[b]; continue; }
        if (l == r) { if (l == x) extra += imp[b]; continue; }   // zero width bin at x (or right of it)
        if (l < x)   // l < x <= r
        {
            lo += imp[b] * (x - l) / (r - l);
            dens = std::fmax(dens, imp[b] / (r - l));
        }
        else if (l == x) dens = std::fmax(dens, imp[b] / (r - l));
    }
    hi = lo + extra;
}

// reference inverse CDF: point and weight for canonical numbers u on grid g (one dimension)
inline void vegas_icdf_ref(std::vector<LD> const& g, LD u, std::size_t& bin, LD& x, LD& w)
{
    std::size_t bins = g.size() - 1;
    LD pos = u * bins;
    bin = (std::size_t)pos;
    if (bin >= bins) bin = bins - 1;
    LD inside = pos - bin;
    x = g[bin] + inside * (g[bin + 1] - g[bin]);
    w = bins * (g[bin + 1] - g[bin]);
}

// ---- multi channel -----------------------------------------------------------------------------
// documented refinement: v_i = w_i d_i^beta / sum_k w_k d_k^beta, raised to min, renormalised.
// returns false when the data carry no information (all products zero)
inline bool refine_weights_ref(std::vector<LD> const& w, std::vector<LD> const& d, LD minw, LD beta, std::vector<LD>& out)
{
    std::size_t n = w.size();
    out.assign(n, 0.0L);
    LD s = 0;
    for (std::size_t i = 0; i < n; ++i) { out[i] = w[i] * std::pow(d[i], beta); s += out[i]; }
    if (!(s > 0)) return false;
    LD s2 = 0;
    for (std::size_t i = 0; i < n; ++i)
    {
        if (out[i] == 0) continue;
        out[i] = std::fmax(out[i] / s, minw);
        s2 += out[i];
    }
    for (auto& x : out) x /= s2;
    return true;
}

} // namespace vf

#endif
