// C15 - rolling a checkpoint back to iteration k reproduces the run that stopped after k.
// Histories run(m) [reload] rollback(k) [reload] resume(rest) for every k in 0..m+1, five checkpoint
// flavours; oracle: byte equality with the text of a run that performed only the first k iterations.
#include "vf_main.hpp"
#include "hist.hpp"
#include "rec.hpp"

typedef VF_T T;
using namespace vf;

#ifndef VF_ENG
#define VF_ENG std::mt19937
#define VF_ENG_NAME "mt19937"
#endif
typedef VF_ENG E;

namespace
{

template <int F> void flavour_case(Rng& rng, std::uint64_t idx)
{
    typedef Flavour<F, T, E> Fl;
    typedef typename Fl::chk_t chk_t;
    HistCfg<T> cfg = make_hist_cfg<T>(rng);
    std::size_t mmax = ctx().thorough ? 6 : 4;
    std::size_t m = 1 + (idx / 5) % mmax;
    std::vector<std::size_t> calls;
    for (std::size_t i = 0; i < m; ++i) calls.push_back(rng.range(60, 400));
    bool reload_before = rng.below(2), reload_after = rng.below(2);
    E gen;
    gen.discard(rng.below(5000));
    J info;
    info.s("T", tname<T>::get()).s("engine", VF_ENG_NAME).s("flavour", Fl::name()).uv("calls", calls).b("reload_before_rollback", reload_before)
        .b("reload_after_rollback", reload_after).u("dims", cfg.dims).u("bins", cfg.bins).u("channels", cfg.channels).s("name1", cfg.name1);
    chk_t initial = Fl::initial(cfg, gen);
    // reference runs that performed only the first k iterations
    std::vector<std::string> ref_text(m + 1), ref_gen(m + 1), ref_alt_text(m + 1);
    // a different continuation (other numbers of calls): the rolled-back checkpoint must behave like the run of k iterations under it, too
    std::vector<std::size_t> alt;
    for (std::size_t i = 0, n = rng.range(2, 3); i < n; ++i) alt.push_back(rng.range(60, 400));
    for (std::size_t k = 0; k <= m; ++k)
    {
        std::vector<std::size_t> first(calls.begin(), calls.begin() + k);
        chk_t r = Fl::run(cfg, initial, first, GoOnSerial());
        ref_text[k] = text_of(r);
        ref_gen[k] = to_text(r.generator());
        if (r.results().size() != k) { viol("harness:reference-run-size", info); return; }
        ref_alt_text[k] = text_of(Fl::run(cfg, r, alt, GoOnSerial()));
    }
    chk_t full = Fl::run(cfg, initial, calls, GoOnSerial());
    std::string full_text = text_of(full);
    if (full_text != ref_text[m]) { viol("harness:full-run-differs-from-reference", info); return; }
    for (std::size_t k = 0; k <= m + 1; ++k)
    {
        J inf = J(info).u("k", k).u("n", m);
        ++ctx().evaluations;
        count(k == 0 ? "rollbacks_to_0" : k == m ? "rollbacks_to_n" : k > m ? "rollbacks_beyond_n" : "rollbacks_to_middle");
        chk_t c = full;
        if (reload_before) { std::istringstream in(full_text); c = chk_t(in); if (in.fail()) { viol("harness:reload-failed", inf); return; } count("reloaded_before_rollback"); }
        std::string kind = std::string(reload_before ? "reloaded" : "in-memory") + ":" + (k == 0 ? "k=0" : k == m ? "k=n" : k > m ? "k>n" : "0<k<n");
        if (k > m)
        {
            bool threw = false;
            try { c.rollback(k); } catch (std::out_of_range const&) { threw = true; }
            if (!threw) { viol("rollback-beyond-n-not-rejected:" + kind, inf); continue; }
            if (text_of(c) != full_text) viol("rejected-rollback-changed-the-checkpoint:" + kind, inf);
            continue;
        }
        c.rollback(k);
        if (c.results().size() != k) { viol("rollback-left-wrong-number-of-results:" + kind, J(inf).u("results", c.results().size())); continue; }
        std::string t = text_of(c);
        if (t != ref_text[k])
        {
            // where do the texts part?
            std::size_t p = 0;
            while (p < t.size() && p < ref_text[k].size() && t[p] == ref_text[k][p]) ++p;
            viol(std::string("rolled-back-text-differs-from-run-of-k-iterations:") + Fl::name() + ":" + kind,
                J(inf).u("first_difference_at", p).u("len", t.size()).u("ref_len", ref_text[k].size()).s("got", t.substr(p > 20 ? p - 20 : 0, 120)).s("want", ref_text[k].substr(p > 20 ? p - 20 : 0, 120)));
            continue;
        }
        if (to_text(c.generator()) != ref_gen[k]) { viol("rolled-back-generator-differs:" + kind, inf); continue; }
        if (reload_after) { std::istringstream in(t); c = chk_t(in); if (in.fail()) { viol("rolled-back-checkpoint-cannot-be-reloaded:" + kind, inf); continue; } }
        // a different continuation from the rolled-back checkpoint equals that continuation of the run that stopped after k
        {
            chk_t other = Fl::run(cfg, c, alt, GoOnSerial());
            count("different_continuations_after_rollback");
            if (text_of(other) != ref_alt_text[k])
            {
                viol(std::string("different-continuation-after-rollback-differs-from-that-of-the-run-of-k-iterations:") + Fl::name() + ":" + kind, J(inf).uv("continuation_calls", alt));
                continue;
            }
        }
        // resume: the rest of the original run is reproduced exactly
        std::vector<std::size_t> rest(calls.begin() + k, calls.end());
        chk_t resumed = Fl::run(cfg, c, rest, GoOnSerial());
        count("resumes_after_rollback");
        if (text_of(resumed) != full_text) { viol(std::string("resume-after-rollback-does-not-reproduce-the-original-run:") + Fl::name() + ":" + kind, inf); continue; }
        // longer histories: the resumed checkpoint (which has been reloaded and continued) is rolled back again
        std::size_t k2 = rng.below(3) == 0 ? 0 : rng.below(m + 1);
        resumed.rollback(k2);
        count("second_rollbacks_after_resume");
        if (text_of(resumed) != ref_text[k2])
            viol(std::string("second-rollback-after-resume-differs-from-run-of-k-iterations:") + Fl::name() + ":" + (reload_before || reload_after ? "reloaded" : "in-memory") + (k2 == 0 ? ":k2=0" : ":k2>0"),
                J(inf).u("k2", k2));
        if (k < m || reload_before) nontrivial(mix(hash_str(inf.str()), F));
    }
    sample(info, 5);
}

} // namespace

std::uint64_t vfh_num_cases(bool thorough) { return thorough ? 2400 : 100; }

void vfh_run_case(std::uint64_t idx, Rng& rng)
{
    switch (idx % 5)
    {
    case 0: flavour_case<0>(rng, idx); break;
    case 1: flavour_case<1>(rng, idx); break;
    case 2: flavour_case<2>(rng, idx); break;
    case 3: flavour_case<3>(rng, idx); break;
    default: flavour_case<4>(rng, idx); break;
    }
}

void vfh_selftest() {}
