// C08 - channel weights stay a probability vector; disabled channels and the floor are respected.
// (a) direct monitor on multi_channel_refine_weights, (b) in-run monitor on results()[k].channel_weights()
// and chkpt.channel_weights() of real adaptive multi-channel runs with asymmetric channels.
#include "vf_main.hpp"
#include "ref.hpp"
#include "mcmap.hpp"
#include "rec.hpp"
#include "hep/mc-mpi.hpp"

typedef VF_T T;
using namespace vf;

namespace
{

// judge `out` as the refinement of (w, d, minw, beta); in_run: w is already normalised
void judge(std::vector<T> const& w, std::vector<T> const& d, T minw, T beta, std::vector<T> const& out, J const& info,
    bool& judged_ratio)
{
    std::size_t n = w.size();
    judged_ratio = false;
    if (out.size() != n) { viol("size-changed", info); return; }
    LD sum = 0;
    bool bad = false;
    for (std::size_t i = 0; i < n; ++i)
    {
        if (!std::isfinite(out[i])) { viol("non-finite-weight", J(info).u("channel", i).fv("out", out)); bad = true; break; }
        if (out[i] < T()) { viol("negative-weight", J(info).u("channel", i).fv("out", out)); bad = true; break; }
        if (w[i] == T() && out[i] != T()) { viol("disabled-channel-re-enabled", J(info).u("channel", i).fv("out", out)); bad = true; }
        sum += out[i];
    }
    if (bad) return;
    count("vectors_checked");
    std::vector<LD> wl(w.begin(), w.end()), dl(d.begin(), d.end()), ref;
    bool info_present = refine_weights_ref(wl, dl, minw, beta, ref);
    {
        // data so small that every product weight * datum^beta underflows to zero in T carry no information
        // for the type under test either
        bool all_underflow = true;
        for (std::size_t i = 0; i < n; ++i) if (w[i] * std::pow(d[i], beta) != T()) all_underflow = false;
        if (info_present && all_underflow) { info_present = false; count("information_lost_to_underflow_in_T"); }
    }
    if (!info_present)
    {
        // no information: the weights stay as they were - either literally (what a run, whose weights are
        // already normalised, needs) or as the same probability vector
        count("all_zero_data");
        LD sw = 0;
        for (LD x : wl) sw += x;
        bool unchanged = true, normalised = true;
        for (std::size_t i = 0; i < n; ++i)
        {
            unchanged = unchanged && same_bits(out[i], w[i]);
            normalised = normalised && close_abs<T>(out[i], wl[i] / sw, 8 * (n + 1), 1.0L);
        }
        if (!unchanged && !normalised) viol("zero-data-changed-weights", J(info).fv("out", out));
        return;
    }
    if (!close_abs<T>(sum, 1.0L, 4 * (n + 1), 1.0L)) { viol("sum-not-one", J(info).f("sum", sum).fv("out", out)); return; }
    // underflow-prone inputs are validated as probability vectors only
    LD s = 0, smallest = 1;
    std::vector<LD> v(n);
    for (std::size_t i = 0; i < n; ++i) { v[i] = wl[i] * std::pow(dl[i], (LD)beta); s += v[i]; }
    for (std::size_t i = 0; i < n; ++i) { v[i] /= s; if (v[i] > 0) smallest = std::fmin(smallest, v[i]); }
    LD tiny = (LD)std::numeric_limits<T>::min() * 1024;
    bool prone = smallest < tiny;
    for (std::size_t i = 0; i < n; ++i) if (wl[i] > 0 && dl[i] > 0 && (std::pow(dl[i], (LD)beta) < tiny || wl[i] * std::pow(dl[i], (LD)beta) < tiny)) prone = true;
    if (s > (LD)std::numeric_limits<T>::max() / 4) prone = true;
    if (prone) { count("underflow_prone_unjudged"); return; }

    // proportion rule for every enabled channel with a positive datum (ratios against the reference)
    LD tol_band = 16 * (n + 2) * eps<T>();
    int judged = 0;
    for (std::size_t i = 0; i < n; ++i)
    {
        if (!(wl[i] > 0 && dl[i] > 0)) continue;
        bool near_floor = std::fabs(v[i] - (LD)minw) <= tol_band * std::fmax(v[i], (LD)minw);
        if (near_floor) { count("ambiguous_near_floor"); continue; }
        ++judged;
        if (!close_rel<T>(out[i], ref[i], 16 * (n + 4)))
        {
            viol(v[i] < (LD)minw ? "proportion:floored-channel" : "proportion", J(info).u("channel", i).f("got", out[i]).f("expected", ref[i]).fv("out", out));
            return;
        }
        LD floor_bound = (LD)minw / (1 + n * (LD)minw);
        if ((LD)out[i] < floor_bound * (1 - 16 * (n + 2) * eps<T>()))
        {
            viol("below-floor", J(info).u("channel", i).f("got", out[i]).f("bound", floor_bound));
            return;
        }
    }
    if (judged >= 2) judged_ratio = true;
    count("channels_ratio_judged", judged);
}

std::vector<T> make_weights(Rng& rng, std::size_t n, std::string& kind)
{
    std::vector<T> w(n);
    switch (rng.below(4))
    {
    case 0: kind = "normalised-random"; { LD s = 0; std::vector<LD> t(n); for (auto& x : t) { x = rng.u01l() + 1e-3L; s += x; } for (std::size_t i = 0; i < n; ++i) w[i] = T(t[i] / s); } break;
    case 1: kind = "unnormalised"; for (auto& x : w) x = T(rng.range(1, 1000)) * T(0.37); break;
    case 2: kind = "equal"; for (auto& x : w) x = T(1) / T(n); break;
    default: kind = "wide"; for (auto& x : w) x = std::ldexp(T(1) + T(rng.u01l()), -int(rng.below(20))); break;
    }
    if (n >= 2 && rng.below(2))
    {
        kind += "+zeros";
        std::size_t k = rng.range(1, std::max<std::size_t>(1, n / 2));
        for (std::size_t i = 0; i < k; ++i) w[rng.below(n)] = T();
        bool any = false;
        for (T x : w) any = any || x != T();
        if (!any) w[rng.below(n)] = T(1);
    }
    return w;
}

std::vector<T> make_data(Rng& rng, std::size_t n, std::string& kind)
{
    std::vector<T> d(n, T());
    int const span = std::is_same<T, float>::value ? 30 : 300;
    switch (rng.below(7))
    {
    case 6: kind = "subnormal-products"; for (auto& x : d) x = std::numeric_limits<T>::denorm_min() * T(rng.below(40)); if (rng.below(2)) for (auto& x : d) x *= T(64); break;
    case 0: kind = "all-zero"; break;
    case 1: kind = "single-non-zero"; d[rng.below(n)] = std::ldexp(T(1) + T(rng.u01l()), int(rng.below(2 * span)) - span); break;
    case 2: kind = "wide-range"; for (auto& x : d) x = std::ldexp(T(1) + T(rng.u01l()), int(rng.below(2 * span)) - span); break;
    case 3: kind = "some-zero"; for (auto& x : d) x = rng.below(3) ? T(rng.u01l()) : T(); break;
    case 4: kind = "equal"; for (auto& x : d) x = T(2.5); break;
    default: kind = "random"; for (auto& x : d) x = T(rng.u01l()) * T(rng.u01l()) + std::numeric_limits<T>::epsilon(); break;
    }
    return d;
}

void direct(Rng& rng)
{
    static const std::size_t ns[] = {1, 2, 2, 3, 4, 5, 8, 13, 32, 64};
    std::size_t n = ns[rng.below(10)];
    std::string wk, dk;
    std::vector<T> w = make_weights(rng, n, wk);
    T beta = rng.below(3) == 0 ? T(0.25) : rng.below(2) ? T(1) : T(0.01L + 0.99L * rng.u01l());
    T minw = rng.below(3) == 0 ? T() : T(rng.u01l() * 0.999L / n);
    std::size_t chain = rng.below(5) == 0 ? rng.range(2, 20) : 1;
    for (std::size_t step = 0; step < chain; ++step)
    {
        std::vector<T> d = make_data(rng, n, dk);
        J info;
        info.s("T", tname<T>::get()).u("channels", n).s("weights_kind", wk).s("data_kind", dk).f("beta", beta).f("min_weight", minw)
            .fv("weights", w).fv("data", d).u("step", step);
        std::vector<T> out = hep::multi_channel_refine_weights(w, d, minw, beta);
        bool judged;
        judge(w, d, minw, beta, out, info, judged);
        ++ctx().evaluations;
        count("refinements");
        std::uint64_t sig = hash_str(tname<T>::get());
        for (T x : w) sig = mix(sig, bits_hash(x));
        for (T x : d) sig = mix(sig, bits_hash(x));
        if (judged) nontrivial(sig);
        if (step == 0) sample(J(info).fv("out", out));
        bool ok = out.size() == n;
        for (T x : out) ok = ok && std::isfinite(x) && x >= T();
        bool any = false;
        for (T x : out) any = any || x > T();
        if (!ok || !any) break;
        w = out;
        wk = "refined";
    }
}

// ---- in-run ------------------------------------------------------------------------------------
struct RunState
{
    std::size_t iteration = 0;
    std::size_t zero_iteration = ~std::size_t(0);
    T power = T(2);
    T cut = T();                         // phase-space cut: the integrand is zero where all densities vanish (the weight is infinite there)
    unsigned nonfinite_pm = 0;           // per mille of the points (hash of the coordinates) at which the integrand returns NaN / inf
    std::vector<T> prev_weights, prev_data;
    std::vector<std::string> pending;    // judged on the main thread (rank threads only record)
};
RunState* g_run = 0;

T run_f(hep::multi_channel_point<T> const& p)
{
    RunState& r = *g_run;
    if (r.iteration == r.zero_iteration) return T();
    if (p.coordinates()[0] < r.cut) return T();
    if (r.nonfinite_pm)
    {
        std::uint64_t h = point_hash(p.coordinates(), 77);
        if (h % 1000 < r.nonfinite_pm) return (h & 1024) ? std::numeric_limits<T>::quiet_NaN() : std::numeric_limits<T>::infinity();
    }
    T v = T(1);
    for (T x : p.coordinates()) v *= (r.power + T(1)) * std::pow(x, r.power);
    return v;
}

// the same integrand filling a distribution (the library has a separate accumulator for integrands with distributions)
T run_f_dist(hep::multi_channel_point<T> const& p, hep::projector<T>& proj)
{
    T v = run_f(p);
    proj.add(0, p.coordinates()[0], v);
    return v;
}

template <typename Chk> struct RunCallback
{
    RunState* r;
    J info;
    T minw, beta;
    std::vector<T> user;
    bool operator()(Chk const& chk)
    {
        auto const& res = chk.results().back();
        std::vector<T> const& used = res.channel_weights();
        std::size_t n = used.size();
        J inf2 = J(info).u("iteration", r->iteration);
        // weights used for this iteration are a probability vector
        LD sum = 0;
        bool ok = true;
        for (std::size_t i = 0; i < n; ++i)
        {
            if (!std::isfinite(used[i]) || used[i] < T()) { viol("in-run:invalid-weight", J(inf2).fv("weights", used)); ok = false; break; }
            sum += used[i];
        }
        if (ok && !close_abs<T>(sum, 1.0L, 4 * (n + 1), 1.0L)) viol("in-run:sum-not-one", J(inf2).f("sum", sum).fv("weights", used));
        count("run_vectors_checked");
        if (r->iteration == 0)
        {
            // first iteration: the normalised user vector, zeros kept
            // (normalisation applies the configured minimum weight, as every refinement does)
            std::vector<LD> ul(user.begin(), user.end()), ones(n, 1.0L), first;
            refine_weights_ref(ul, ones, minw, beta, first);
            for (std::size_t i = 0; ok && i < n; ++i)
                if (!close_abs<T>(used[i], first[i], 16 * (n + 4), 1.0L) || ((user[i] == T()) != (used[i] == T())))
                { viol("in-run:first-weights-not-user-weights", J(inf2).fv("user", user).fv("used", used)); break; }
        }
        else
        {
            for (std::size_t i = 0; ok && i < n; ++i)
                if (r->prev_weights[i] == T() && used[i] != T()) { viol("in-run:disabled-channel-re-enabled", J(inf2).u("channel", i)); break; }
            // the weights this iteration was sampled with are the documented refinement of the previous result
            bool j2;
            if (ok) judge(r->prev_weights, r->prev_data, minw, beta, used, J(inf2).s("where", "results()[k].channel_weights() vs refinement of result k-1").fv("weights", r->prev_weights).fv("data", r->prev_data), j2);
            count("used_weights_judged_against_previous_result");
        }
        // the weights the checkpoint proposes for the next iteration
        std::vector<T> next = chk.channel_weights();
        bool judged;
        if (ok) judge(used, res.adjustment_data(), minw, beta, next, J(inf2).s("where", "chkpt.channel_weights()").fv("weights", used).fv("data", res.adjustment_data()), judged);
        if (r->iteration == r->zero_iteration) count("zero_iterations");
        r->prev_weights = used;
        r->prev_data = res.adjustment_data();
        ++r->iteration;
        return true;
    }
    bool operator()(MPI_Comm, Chk const& chk) { return (*this)(chk); }
};

void in_run(Rng& rng)
{
    std::size_t n = rng.range(1, 6), dims = rng.range(1, 2);
    PowerMap<T> map;
    for (std::size_t c = 0; c < n; ++c) map.a.push_back(T(rng.below(5)) * T(0.75));
    map.jac = rng.below(2) ? T() : T(0.5);
    std::string wk;
    std::vector<T> user = make_weights(rng, n, wk);
    T beta = rng.below(2) ? T(0.25) : T(0.05L + 0.95L * rng.u01l());
    T minw = rng.below(2) ? T() : T(rng.u01l() * 0.9L / n);
    RunState r;
    r.power = T(rng.below(4));
    std::size_t iters = rng.range(2, ctx().thorough ? 30 : 8);
    if (rng.below(2)) r.zero_iteration = rng.range(0, iters - 1);
    std::size_t calls = rng.range(100, 1500);
    if (rng.below(3) == 0) { r.cut = map.cut = T(0.05L + 0.3L * rng.u01l()); count("runs_with_a_cut_where_all_densities_vanish"); }
    bool with_dist = rng.below(3) == 0;
    if (rng.below(3) == 0) { r.nonfinite_pm = 50; count("runs_with_non-finite_integrand_values"); }
    if (with_dist) count("runs_with_a_distribution");
    J info;
    info.f("cut", r.cut).b("with_distribution", with_dist).u("nonfinite_per_mille", r.nonfinite_pm).s("T", tname<T>::get()).u("channels", n).u("dims", dims).fv("a", map.a).f("jac", map.jac).s("weights_kind", wk).fv("user_weights", user)
        .f("beta", beta).f("min_weight", minw).u("iterations", iters).u("calls", calls).f("integrand_power", r.power)
        .i("zero_iteration", r.zero_iteration == ~std::size_t(0) ? -1 : (long long)r.zero_iteration);
    typedef hep::multi_channel_chkpt_with_rng<std::mt19937, T> chk_t;
    std::mt19937 eng((unsigned)rng.next());
    chk_t chk(eng, user, minw, beta);
    if (rng.below(2))
    {
        // the run starts from a checkpoint that was written to text and read back before the first iteration
        chk.channels(n);
        std::ostringstream o;
        chk.serialize(o);
        std::istringstream in(o.str());
        chk = chk_t(in);
        count("runs_started_from_reloaded_initial_checkpoint");
    }
    RunCallback<chk_t> cb = {&r, info, minw, beta, user};
    g_run = &r;
    int P = rng.below(3) == 0 ? (int)rng.range(2, 4) : 1;
    if (r.zero_iteration != ~std::size_t(0)) P = 1;      // the zero iteration is keyed on a shared counter
    if (P == 1 && with_dist)
        hep::multi_channel(hep::make_multi_channel_integrand<T>(run_f_dist, dims, map, dims, n, hep::make_dist_params<T>(4, T(0), T(1), "x")), std::vector<std::size_t>(iters, calls), chk, cb);
    else if (P == 1) hep::multi_channel(hep::make_multi_channel_integrand<T>(run_f, dims, map, dims, n), std::vector<std::size_t>(iters, calls), chk, cb);
    else
    {
        // shim MPI: rank 0 carries the judging callback, the other ranks a callback that only continues
        struct Go { bool operator()(MPI_Comm, chk_t const&) const { return true; } };
        // the run is done in two MPI calls: the second continues the checkpoint (which already holds results) of the first
        std::size_t first = rng.range(1, iters - 1);
        chk_t mid = chk;
        for (int phase = 0; phase < 2; ++phase)
        {
            VfWorld world;
            std::vector<std::size_t> seg(phase ? iters - first : first, calls);
            // some iterations have fewer calls than ranks (the last ranks get none) or just a few more
            for (auto& sc : seg) if (rng.below(3) == 0) { sc = rng.range(1, 2 * P); count("mpi_iterations_with_about_as_many_calls_as_ranks"); }
            chk_t start = phase ? mid : chk;
            vf_mpi_run(world, P, rng.next(), [&](int rank, MPI_Comm comm) {
                auto integrand = hep::make_multi_channel_integrand<T>(run_f, dims, map, dims, n);
                if (rank == 0) { chk_t r2 = hep::mpi_multi_channel(comm, integrand, seg, start, cb); if (!phase) mid = r2; }
                else hep::mpi_multi_channel(comm, integrand, seg, start, Go());
            });
            if (world.aborted) { viol("in-run:mpi-collective-mismatch", J(info).s("reason", world.abort_reason)); break; }
        }
        count("mpi_runs");
        count("mpi_runs_continued_from_a_checkpoint_with_results");
    }
    g_run = 0;
    if (r.iteration != iters) viol("harness:callback-count", J(info).u("seen", r.iteration));
    ++ctx().evaluations;
    count("adaptive_runs");
    nontrivial(hash_str(info.str()));
    sample(J(info).s("kind", "in-run"), 6);
}

} // namespace

std::uint64_t vfh_num_cases(bool thorough) { return thorough ? 300000 : 12000; }

void vfh_run_case(std::uint64_t idx, Rng& rng)
{
    if (idx % 100 >= 98) in_run(rng);
    else direct(rng);
}

void vfh_selftest()
{
    // the reference must satisfy its own laws on a simple input
    std::vector<LD> w = {0.5L, 0.25L, 0.25L, 0}, d = {1, 4, 0, 3}, out;
    if (!refine_weights_ref(w, d, 0.0L, 0.5L, out)) inconclusive("reference refine self-check");
    if (std::fabs(out[0] - 0.5L) > 1e-15L || std::fabs(out[1] - 0.5L) > 1e-15L || out[2] != 0 || out[3] != 0) inconclusive("reference refine self-check");
}
