// C11 - a distribution bin is the integral of the integrand restricted to that bin.
// (A) placement monitor: single-call iterations, one projector.add per distribution with a directed
//     coordinate (interior, every edge, +-1 ulp, x_max, outside, far outside, +-inf, NaN); the bin that
//     received the entry must be one the exact arithmetic allows, in x-fastest order matching mid_points.
// (B) whole-run monitor: PLAIN / VEGAS / multi-channel runs with hash-chosen coordinates; per-bin exact sums,
//     full call count per bin, sum over bins = everything projected inside, and a differential run that
//     integrates f * indicator(bin) / area with the same random numbers.
#include "vf_main.hpp"
#include "rec.hpp"
#include "mcmap.hpp"
#include "hep/mc-mpi.hpp"

typedef VF_T T;
using namespace vf;

namespace
{

struct Axis { T min, max; std::size_t bins; };

Axis make_axis(Rng& rng, std::size_t maxbins, bool allow_extreme = true)
{
    Axis a;
    // extremes are chosen so that 1/area^2 stays representable in T (float: 1e+-12, else 1e+-30)
    T const big = std::is_same<T, float>::value ? T(1e12) : T(1e30);
    a.bins = rng.below(4) == 0 ? rng.range(1, maxbins) : rng.range(1, std::min<std::size_t>(maxbins, 8));
    switch (allow_extreme ? rng.below(6) : rng.below(3))
    {
    case 0: a.min = T(0); a.max = T(1); break;
    case 1: a.min = T(-3.5); a.max = T(-1.25); break;
    case 2: a.min = T(-1); a.max = T(7); break;
    case 3: a.min = T(1) / big; a.max = T(3) / big; break;                     // tiny
    case 4: a.min = T(-2) * big; a.max = T(5) * big; break;                      // huge
    default: a.min = T(rng.u01l() * 10 - 5); a.max = a.min + T(rng.u01l() * 3 + 0.001L); break;
    }
    return a;
}

// acceptable bins (-1 = no bin) for coordinate x on an axis described by the stored (min, size, bins)
void candidates(T x, T min, T size, std::size_t bins, std::vector<long>& out, bool& ambiguous)
{
    out.clear();
    ambiguous = false;
    if (std::isnan(x) || std::isinf(x)) { out.push_back(-1); return; }
    LD q = ((LD)x - (LD)min) / (LD)size;
    LD slack = 4 * eps<T>() * (std::fabs(q) + (std::fabs((LD)x) + std::fabs((LD)min)) / std::fabs((LD)size)) + 4 * eps<T>();
    auto norm = [&](LD k) -> long { return (k < 0 || k >= (LD)bins) ? -1 : (long)k; };
    LD k = std::floor(q);
    out.push_back(norm(k));
    if (q - k <= slack) { long o = norm(k - 1); if (std::find(out.begin(), out.end(), o) == out.end()) out.push_back(o); ambiguous = true; }
    if (k + 1 - q <= slack) { long o = norm(k + 1); if (std::find(out.begin(), out.end(), o) == out.end()) out.push_back(o); ambiguous = true; }
}

T directed_coord(Rng& rng, T min, T size, std::size_t bins, std::string& cls)
{
    T const inf = std::numeric_limits<T>::infinity();
    T range = size * T(bins);
    std::size_t k = rng.below(bins + 1);
    T edge = min + T(k) * size;
    switch (rng.below(14))
    {
    case 0: cls = "interior"; return min + (T(rng.below(bins)) + T(0.1L + 0.8L * rng.u01l())) * size;
    case 1: cls = "edge"; return edge;
    case 2: cls = "edge-1ulp"; return std::nextafter(edge, -inf);
    case 3: cls = "edge+1ulp"; return std::nextafter(edge, inf);
    case 4: cls = "x_max"; return min + range;
    case 5: cls = "just-below-min"; return std::nextafter(min, -inf);
    case 6: cls = "below-min"; return min - T(0.5) * size;
    case 7: cls = "above-max"; return min + range + T(0.5) * size;
    case 8: cls = "far-above"; return min + T(1e30) * range;
    case 9: cls = "far-below"; return min - T(1e30) * range;
    case 10: cls = "+inf"; return inf;
    case 11: cls = "-inf"; return -inf;
    case 12: cls = "NaN"; return std::numeric_limits<T>::quiet_NaN();
    default: cls = "x_min"; return min;
    }
}

// ---- (A) placement -----------------------------------------------------------------------------
struct PlaceAdd { bool two_d; T x, y; };
std::vector<PlaceAdd>* g_place = 0;

T place_f(hep::mc_point<T> const&, hep::projector<T>& pr)
{
    for (std::size_t i = 0; i < g_place->size(); ++i)
    {
        PlaceAdd const& a = (*g_place)[i];
        if (a.two_d) pr.add(i, a.x, a.y, T(1)); else pr.add(i, a.x, T(1));
    }
    return T(1);
}

void judge_placement(hep::distribution_result<T> const& dr, PlaceAdd const& a, std::string const& cx, std::string const& cy, J const& info)
{
    auto const& p = dr.parameters();
    std::vector<long> candx, candy;
    bool ax, ay = false;
    candidates(a.x, p.x_min(), p.bin_size_x(), p.bins_x(), candx, ax);
    if (a.two_d) candidates(a.y, p.y_min(), p.bin_size_y(), p.bins_y(), candy, ay);
    else candy.push_back(0);
    std::vector<long> ok;
    for (long bx : candx) for (long by : candy) ok.push_back((bx < 0 || by < 0) ? -1 : by * (long)p.bins_x() + bx);
    long got = -1;
    std::size_t filled = 0;
    for (std::size_t b = 0; b < dr.results().size(); ++b)
    {
        if (dr.results()[b].calls() != 1) { viol("bin-calls!=iteration-calls", J(info).u("bin", b).u("bin_calls", dr.results()[b].calls())); return; }
        if (dr.results()[b].finite_calls() != 0 || dr.results()[b].sum() != T()) { got = (long)b; ++filled; }
    }
    count("placements_checked");
    if (ax || ay) count("placements_at_an_edge(ambiguous)");
    if (cx != "interior" && cx != "edge" && cx != "edge-1ulp" && cx != "edge+1ulp" && cx != "x_min") count("placements_outside_or_nonfinite");
    J d(info);
    d.f("x", a.x).s("x_class", cx).f("x_min", p.x_min()).f("size_x", p.bin_size_x()).u("bins_x", p.bins_x()).i("got_bin", got);
    if (a.two_d) d.f("y", a.y).s("y_class", cy).f("y_min", p.y_min()).f("size_y", p.bin_size_y()).u("bins_y", p.bins_y());
    if (filled > 1) { viol("value-added-to-several-bins", d); return; }
    if (std::find(ok.begin(), ok.end(), got) == ok.end())
    {
        bool expect_none = ok.size() == 1 && ok[0] == -1;
        viol(expect_none ? std::string("value-binned-although-outside:") + (a.two_d ? "2d:" : "1d:") + cx + (a.two_d ? "/" + cy : "")
                         : (got < 0 ? std::string("value-dropped-although-inside:") : std::string("wrong-bin:")) + (a.two_d ? "2d" : "1d"), d);
        return;
    }
    if (got >= 0)
    {
        // the same order as the reported mid-points
        std::vector<T> mx = hep::mid_points_x(dr), my = hep::mid_points_y(dr);
        if (mx.size() != dr.results().size() || my.size() != dr.results().size()) { viol("mid-points-size", d); return; }
        std::size_t bx = got % p.bins_x(), by = got / p.bins_x();
        LD ex = (LD)p.x_min() + (bx + 0.5L) * (LD)p.bin_size_x(), ey = (LD)p.y_min() + (by + 0.5L) * (LD)p.bin_size_y();
        LD tx = (p.bins_x() + 4) * 4 * eps<T>() * (std::fabs((LD)p.x_min()) + p.bins_x() * std::fabs((LD)p.bin_size_x()));
        LD ty = (p.bins_y() + 4) * 4 * eps<T>() * (std::fabs((LD)p.y_min()) + p.bins_y() * std::fabs((LD)p.bin_size_y()));
        if (std::fabs((LD)mx[got] - ex) > tx || std::fabs((LD)my[got] - ey) > ty)
            viol("mid-points-order-differs-from-bin-order", J(d).f("mid_x", mx[got]).f("expected_x", ex).f("mid_y", my[got]).f("expected_y", ey));
        // the filled bin holds value * weight / area
        LD area = (LD)p.bin_size_x() * (LD)p.bin_size_y();
        if (!close_rel<T>((LD)dr.results()[got].sum() * area, 1.0L, 16)) viol("bin-sum-times-area!=value", J(d).f("sum", dr.results()[got].sum()).f("area", area));
    }
}

void placement_case(Rng& rng)
{
    int layout = rng.below(3);   // 0: one 1-d; 1: one 2-d; 2: three distributions (1-d, 2-d, 1-d)
    Axis a1 = make_axis(rng, 50), a2x = make_axis(rng, 50), a2y = make_axis(rng, 20, false), a3 = make_axis(rng, 50);
    hep::distribution_parameters<T> p1(a1.bins, a1.min, a1.max, "one");
    hep::distribution_parameters<T> p2(a2x.bins, a2y.bins, a2x.min, a2x.max, a2y.min, a2y.max, "two");
    hep::distribution_parameters<T> p3(a3.bins, a3.min, a3.max, "three");
    std::mt19937 eng(1);
    std::size_t reps = 40;
    for (std::size_t rep = 0; rep < reps; ++rep)
    {
        std::vector<PlaceAdd> adds;
        std::vector<std::string> cx, cy;
        auto mk1 = [&](hep::distribution_parameters<T> const& p) { std::string c; PlaceAdd a = {false, directed_coord(rng, p.x_min(), p.bin_size_x(), p.bins_x(), c), T()}; adds.push_back(a); cx.push_back(c); cy.push_back(""); };
        auto mk2 = [&](hep::distribution_parameters<T> const& p) {
            std::string c, d;
            T x = directed_coord(rng, p.x_min(), p.bin_size_x(), p.bins_x(), c);
            T y = directed_coord(rng, p.y_min(), p.bin_size_y(), p.bins_y(), d);
            if (rng.below(2)) { x = p.x_min() + (T(rng.below(p.bins_x())) + T(0.5)) * p.bin_size_x(); c = "interior"; }   // isolate the y axis half of the time
            PlaceAdd a = {true, x, y};
            adds.push_back(a); cx.push_back(c); cy.push_back(d);
        };
        g_place = &adds;
        J info;
        info.s("T", tname<T>::get()).i("layout", layout);
        if (layout == 0)
        {
            mk1(p1);
            auto r = hep::plain_iteration(hep::make_integrand<T>(place_f, 1, p1), 1, eng);
            judge_placement(r.distributions()[0], adds[0], cx[0], cy[0], info);
        }
        else if (layout == 1)
        {
            mk2(p2);
            auto r = hep::plain_iteration(hep::make_integrand<T>(place_f, 1, p2), 1, eng);
            judge_placement(r.distributions()[0], adds[0], cx[0], cy[0], info);
        }
        else
        {
            mk1(p1); mk2(p2); mk1(p3);
            auto r = hep::plain_iteration(hep::make_integrand<T>(place_f, 1, p1, p2, p3), 1, eng);
            for (std::size_t i = 0; i < 3; ++i) judge_placement(r.distributions()[i], adds[i], cx[i], cy[i], J(info).u("distribution", i));
        }
        g_place = 0;
    }
    ++ctx().evaluations;
    std::uint64_t sig = mix(bits_hash(a1.min), bits_hash(a2x.max));
    sig = mix(sig, a1.bins * 1000 + a2y.bins + layout * 100000);
    nontrivial(mix(sig, hash_str(tname<T>::get())));
    sample(J().s("kind", "placement").s("T", tname<T>::get()).i("layout", layout).f("min", a1.min).f("max", a1.max).u("bins", a1.bins), 3);
}

// ---- (B) whole runs ----------------------------------------------------------------------------
struct RunCfg
{
    std::uint64_t salt;
    Axis ax, ay;
    bool two_d;
    long only_bin;      // differential run: integrate value * indicator(bin) / area instead (-1: normal)
    LD area;
    T xs, ys;           // stored sizes (for the coordinate generator)
};

// coordinate chosen by hash: clearly inside a bin (centre +- 0.3 size) or clearly outside
void run_coord(RunCfg const& c, std::uint64_t h, T& x, T& y, long& bin)
{
    std::size_t bx = (h >> 8) % c.ax.bins, by = c.two_d ? (h >> 24) % c.ay.bins : 0;
    T fx = T(0.5) + T(0.3) * (T((h >> 40) % 1000) / T(500) - T(1));
    x = c.ax.min + (T(bx) + fx) * c.xs;
    y = c.two_d ? c.ay.min + (T(by) + T(0.5)) * c.ys : T();
    bin = (long)(by * c.ax.bins + bx);
    unsigned o = (h >> 52) % 10;
    if (o == 0) { x = c.ax.min - c.xs; bin = -1; }
    else if (o == 1) { x = c.ax.min + T(c.ax.bins + 1) * c.xs; bin = -1; }
    else if (o == 2 && c.two_d) { y = c.ay.min - c.ys; bin = -1; }
}

struct RunAcc { std::vector<ExactSum> s, s2, sa; std::vector<std::uint64_t> n; ExactSum inside; std::uint64_t calls = 0, boundary = 0, outside = 0, overflowing = 0; };

T run_value(RunCfg const& c, RunAcc* acc, CallEv<T>& e, Access<T>& a)
{
    std::uint64_t h = point_hash(e.point, c.salt);
    T base = T(0.75);
    for (T x : (e.kind == 2 ? e.coords : e.point)) base *= (T(0.5) + x);
    if (h & 1) base = -base;
    T x, y;
    long bin;
    run_coord(c, h, x, y, bin);
    ++acc->calls;
    T w = a.weight();
    if (c.only_bin >= 0)
    {
        // same projected value as the original run (a value whose product with the weight overflows was dropped there)
        if (w > T(2.5) && ((h >> 12) % 16) == 0) return T();
        return bin == c.only_bin ? T((LD)base / c.area) : T();
    }
    // a finite value whose product with the weight overflows must be dropped like any non-finite contribution
    if (w > T(2.5) && ((h >> 12) % 16) == 0) { base = std::numeric_limits<T>::max() / T(2); ++acc->overflowing; }
    if (c.two_d) a.add(0, x, y, base); else a.add(0, x, base);
    T vw = base * w;
    if (bin >= 0 && std::isfinite(vw))
    {
        acc->s[bin].add(vw); acc->sa[bin].add(std::fabs(vw)); acc->s2[bin].add((LD)vw * vw); ++acc->n[bin];
        acc->inside.add(vw);
    }
    if (bin < 0) ++acc->outside;
    return ((h >> 4) % 3 == 0) ? T() : T(0.375);   // the integral itself is something else than the projected values
}

template <typename Chk> struct FirstOnly
{
    template <typename C> bool operator()(C const&) const { return false; }
};

template <typename R> R run_integrator(int integ, RunCfg const& c, RunAcc* acc, std::size_t dims, std::size_t calls, std::uint32_t eseed, std::size_t bins, std::size_t channels);

hep::plain_result<T> run_any(int integ, RunCfg const& c, RunAcc* acc, std::size_t dims, std::size_t calls, std::uint32_t eseed, std::size_t bins, std::size_t channels)
{
    Log<T> log;
    RecIntegrand<T> f;
    f.log = &log;
    f.fn = [c, acc](CallEv<T>& e, Access<T>& a) { return run_value(c, acc, e, a); };
    std::mt19937 eng(eseed);
    hep::distribution_parameters<T> p1(c.ax.bins, c.ax.min, c.ax.max, "x");
    hep::distribution_parameters<T> p2(c.ax.bins, c.ay.bins, c.ax.min, c.ax.max, c.ay.min, c.ay.max, "xy");
    hep::distribution_parameters<T> const& dp = c.two_d ? p2 : p1;
    if (integ == 0) return hep::plain_iteration(hep::make_integrand<T>(f, dims, dp), calls, eng);
    if (integ == 1)
    {
        hep::vegas_pdf<T> pdf(dims, bins);
        for (std::size_t d = 0; d < dims; ++d) for (std::size_t b = 1; b < bins; ++b) pdf.set_bin_left(d, b, T(b) / T(bins) * T(b) / T(bins));   // non-uniform grid
        return hep::vegas_iteration(hep::make_integrand<T>(f, dims, dp), calls, pdf, eng);
    }
    PowerMap<T> pm;
    for (std::size_t ch = 0; ch < channels; ++ch) pm.a.push_back(T(ch) * T(0.5));
    std::vector<T> w(channels, T(1) / T(channels));
    auto integrand = hep::make_multi_channel_integrand<T>(f, dims, pm, dims, channels, dp);
    return hep::multi_channel_iteration(integrand, calls, w, eng);
}

// the same iteration through the MPI integrators on the thread shim (every rank has its own accumulator of expected bin contents)
struct GoOnMpi { template <typename C> bool operator()(MPI_Comm, C const&) const { return true; } };

hep::plain_result<T> run_any_mpi(int integ, RunCfg const& c, std::vector<RunAcc>& accs, int P, std::uint64_t wseed, std::size_t dims, std::size_t calls, std::uint32_t eseed,
    std::size_t bins, std::size_t channels, bool& aborted)
{
    std::vector<T> sum(1);
    hep::plain_result<T> res(std::vector<hep::distribution_result<T>>(), 0, 0, 0, T(), T());
    VfWorld world;
    hep::distribution_parameters<T> p1(c.ax.bins, c.ax.min, c.ax.max, "x");
    hep::distribution_parameters<T> p2(c.ax.bins, c.ay.bins, c.ax.min, c.ax.max, c.ay.min, c.ay.max, "xy");
    hep::distribution_parameters<T> const& dp = c.two_d ? p2 : p1;
    vf_mpi_run(world, P, wseed, [&](int rank, MPI_Comm comm) {
        Log<T> log;
        RecIntegrand<T> f;
        f.log = &log;
        RunAcc* acc = &accs[rank];
        f.fn = [c, acc](CallEv<T>& e, Access<T>& a) { return run_value(c, acc, e, a); };
        std::mt19937 eng(eseed);
        std::vector<std::size_t> one(1, calls);
        if (integ == 0)
        {
            typedef hep::plain_chkpt_with_rng<std::mt19937, T> C;
            C r = hep::mpi_plain(comm, hep::make_integrand<T>(f, dims, dp), one, C(eng), GoOnMpi());
            if (rank == 0) res = r.results()[0];
        }
        else if (integ == 1)
        {
            hep::vegas_pdf<T> pdf(dims, bins);
            for (std::size_t d = 0; d < dims; ++d) for (std::size_t b = 1; b < bins; ++b) pdf.set_bin_left(d, b, T(b) / T(bins) * T(b) / T(bins));
            typedef hep::vegas_chkpt_with_rng<std::mt19937, T> C;
            C r = hep::mpi_vegas(comm, hep::make_integrand<T>(f, dims, dp), one, C(eng, pdf, T(1.5)), GoOnMpi());
            if (rank == 0) res = r.results()[0];
        }
        else
        {
            PowerMap<T> pm;
            for (std::size_t ch = 0; ch < channels; ++ch) pm.a.push_back(T(ch) * T(0.5));
            typedef hep::multi_channel_chkpt_with_rng<std::mt19937, T> C;
            C r = hep::mpi_multi_channel(comm, hep::make_multi_channel_integrand<T>(f, dims, pm, dims, channels, dp), one, C(eng, T(), T(0.25)), GoOnMpi());
            if (rank == 0) res = r.results()[0];
        }
    });
    aborted = world.aborted || vf_mpi_take_misuse() != 0;
    return res;
}

void run_case(Rng& rng)
{
    int integ = rng.below(3);
    RunCfg c;
    c.salt = rng.next();
    c.ax = make_axis(rng, 12);
    c.ay = make_axis(rng, 5, false);
    c.two_d = rng.below(2);
    c.only_bin = -1;
    hep::distribution_parameters<T> p2(c.ax.bins, c.ay.bins, c.ax.min, c.ax.max, c.ay.min, c.ay.max, "xy");
    c.xs = p2.bin_size_x();
    c.ys = c.two_d ? p2.bin_size_y() : T(1);
    c.area = (LD)c.xs * (LD)c.ys;
    std::size_t nb = c.ax.bins * (c.two_d ? c.ay.bins : 1);
    std::size_t dims = rng.range(1, 3), calls = rng.range(200, 3000), bins = rng.range(2, 10), channels = rng.range(1, 3);
    std::uint32_t eseed = (std::uint32_t)rng.next();
    RunAcc acc;
    acc.s.resize(nb); acc.s2.resize(nb); acc.sa.resize(nb); acc.n.assign(nb, 0);
    static char const* names[] = {"plain", "vegas", "multi_channel"};
    J info;
    info.s("T", tname<T>::get()).s("integrator", names[integ]).b("two_d", c.two_d).u("bins_x", c.ax.bins).u("bins_y", c.two_d ? c.ay.bins : 1).f("x_min", c.ax.min).f("x_max", c.ax.max)
        .u("calls", calls).u("dims", dims);
    int P = rng.below(3) == 0 ? (int)rng.range(2, 4) : 1;
    hep::plain_result<T> res(std::vector<hep::distribution_result<T>>(), 0, 0, 0, T(), T());
    if (P == 1) res = run_any(integ, c, &acc, dims, calls, eseed, bins, channels);
    else
    {
        std::vector<RunAcc> accs(P);
        for (auto& a : accs) { a.s.resize(nb); a.s2.resize(nb); a.sa.resize(nb); a.n.assign(nb, 0); }
        bool aborted = false;
        res = run_any_mpi(integ, c, accs, P, rng.next(), dims, calls, eseed, bins, channels, aborted);
        info.u("mpi_ranks", P);
        if (aborted) { viol("mpi:collective-mismatch-or-wrong-communicator", info); return; }
        for (auto& a : accs)
        {
            for (std::size_t b = 0; b < nb; ++b) { acc.s[b].merge(a.s[b]); acc.s2[b].merge(a.s2[b]); acc.sa[b].merge(a.sa[b]); acc.n[b] += a.n[b]; }
            acc.inside.merge(a.inside); acc.outside += a.outside; acc.overflowing += a.overflowing; acc.calls += a.calls;
        }
        count("runs_through_mpi_shim");
    }
    ++ctx().evaluations;
    count(std::string("runs_") + names[integ]);
    auto const& dr = res.distributions()[0];
    if (dr.results().size() != nb) { viol("bin-count", J(info).u("got", dr.results().size()).u("expected", nb)); return; }
    ExactSum total;
    for (std::size_t b = 0; b < nb; ++b)
    {
        auto const& r = dr.results()[b];
        count("bins_checked");
        if (r.calls() != calls) { viol("bin-calls!=iteration-calls", J(info).u("bin", b).u("bin_calls", r.calls()).u("calls", calls)); return; }
        if (r.finite_calls() != acc.n[b]) { viol("run:bin-entry-count", J(info).u("bin", b).u("reported", r.finite_calls()).u("expected", acc.n[b])); return; }
        LD tol = (acc.n[b] + 16) * eps<T>() * acc.sa[b].value() + 8 * eps<T>() * std::fabs(acc.s[b].value());
        if (!(std::fabs((LD)r.sum() * c.area - acc.s[b].value()) <= tol)) { viol("run:bin-sum", J(info).u("bin", b).f("sum_times_area", (LD)r.sum() * c.area).f("exact", acc.s[b].value())); return; }
        LD tol2 = (acc.n[b] + 16) * eps<T>() * acc.s2[b].value() * 3;
        if (!(std::fabs((LD)r.sum_of_squares() * c.area * c.area - acc.s2[b].value()) <= tol2)) { viol("run:bin-sum-of-squares", J(info).u("bin", b).f("sumsq_times_area2", (LD)r.sum_of_squares() * c.area * c.area).f("exact", acc.s2[b].value())); return; }
        total.add((LD)r.sum() * c.area);
    }
    {
        ExactSum ta;
        for (auto& x : acc.sa) ta.add(x.value());
        if (!(std::fabs(total.value() - acc.inside.value()) <= (calls + 16) * eps<T>() * ta.value() * 2))
            viol("run:bins-times-areas!=everything-projected-inside", J(info).f("bins", total.value()).f("inside", acc.inside.value()));
    }
    // differential: bin == integral of value * indicator(bin) / area with the same random numbers
    std::size_t bsel = 0;
    for (std::size_t b = 0; b < nb; ++b) if (acc.n[b] > acc.n[bsel]) bsel = b;
    if (acc.n[bsel] >= 2 && P == 1)
    {
        RunCfg c2 = c;
        c2.only_bin = (long)bsel;
        RunAcc dummy;
        hep::plain_result<T> res2 = run_any(integ, c2, &dummy, dims, calls, eseed, bins, channels);
        auto const& r = dr.results()[bsel];
        count("differential_bins_checked");
        LD scale = acc.sa[bsel].value() / c.area / calls;
        if (!close_abs<T>(r.value(), res2.value(), acc.n[bsel] + 32, scale)) viol("differential:bin-estimate", J(info).u("bin", bsel).f("bin_value", r.value()).f("integral_value", res2.value()));
        LD vscale = (acc.s2[bsel].value() / c.area / c.area / calls + scale * scale) / (calls - 1);
        if (!close_abs<T>(r.variance(), res2.variance(), 8 * (acc.n[bsel] + 32), vscale)) viol("differential:bin-variance", J(info).u("bin", bsel).f("bin_variance", r.variance()).f("integral_variance", res2.variance()));
        if (res2.non_zero_calls() != r.finite_calls() && integ != 2) viol("differential:counts", J(info).u("bin", r.finite_calls()).u("integral", res2.non_zero_calls()));
    }
    // accumulated over several short iterations (bins empty in some iterations, filled in others): every accumulated bin still reports
    // the full number of calls, and - equal weighting being linear - its estimate is the average of the per-iteration bin estimates
    if (P == 1 && rng.below(2))
    {
        std::size_t iters = rng.range(2, 4);
        std::vector<hep::plain_result<T>> rs;
        std::size_t total_calls = 0;
        for (std::size_t i = 0; i < iters; ++i)
        {
            RunAcc dummy;
            dummy.s.resize(nb); dummy.s2.resize(nb); dummy.sa.resize(nb); dummy.n.assign(nb, 0);
            std::size_t n = rng.range(5, 80);
            total_calls += n;
            rs.push_back(run_any(integ, c, &dummy, dims, n, eseed + 1 + (std::uint32_t)i, bins, channels));
        }
        hep::plain_result<T> eq = hep::accumulate<hep::weighted_equally>(rs.cbegin(), rs.cend());
        hep::plain_result<T> wv = hep::accumulate<hep::weighted_with_variance>(rs.cbegin(), rs.cend());
        count("accumulated_runs");
        bool some_empty_some_filled = false;
        if (eq.distributions().size() != 1 || eq.distributions()[0].results().size() != nb || wv.distributions()[0].results().size() != nb)
        { viol("accumulated:bin-count", info); return; }
        for (std::size_t b = 0; b < nb; ++b)
        {
            LD mean = 0, mag = 0;
            std::size_t empty = 0;
            for (auto const& r : rs)
            {
                auto const& rb = r.distributions()[0].results()[b];
                mean += (LD)rb.value();
                mag += std::fabs((LD)rb.value());
                if (rb.non_zero_calls() == 0) ++empty;
            }
            mean /= iters;
            if (empty != 0 && empty != iters) some_empty_some_filled = true;
            auto const& e = eq.distributions()[0].results()[b];
            auto const& w = wv.distributions()[0].results()[b];
            count("accumulated_bins_checked");
            if (e.calls() != total_calls || w.calls() != total_calls)
            { viol("accumulated:bin-calls!=sum-of-iteration-calls", J(info).u("bin", b).u("equal", e.calls()).u("variance_weighted", w.calls()).u("expected", total_calls)); return; }
            if (!close_abs<T>(e.value(), mean, 8 * (iters + 2), mag / iters))
            { viol("accumulated:equally-weighted-bin-not-average-of-iterations", J(info).u("bin", b).f("value", e.value()).f("expected", mean).u("iterations_with_empty_bin", empty)); return; }
        }
        if (some_empty_some_filled) count("accumulated_runs_with_a_bin_empty_in_some_iterations_only");
    }
    count("adds_with_finite_value_but_overflowing_product", acc.overflowing);
    if (acc.outside > 0) nontrivial(hash_str(info.str()));
    sample(J(info).s("kind", "run"), 5);
}

} // namespace

std::uint64_t vfh_num_cases(bool thorough) { return thorough ? 160000 : 1200; }
void vfh_run_case(std::uint64_t idx, Rng& rng) { if (idx % 4 == 3) run_case(rng); else placement_case(rng); }
void vfh_selftest()
{
    std::vector<long> c;
    bool amb;
    candidates(T(0.5), T(0), T(0.25), 4, c, amb);
    if (!amb || std::find(c.begin(), c.end(), 2L) == c.end() || std::find(c.begin(), c.end(), 1L) == c.end()) inconclusive("candidate self-test (edge)");
    candidates(T(0.6), T(0), T(0.25), 4, c, amb);
    if (amb || c.size() != 1 || c[0] != 2) inconclusive("candidate self-test (interior)");
    candidates(T(1.5), T(0), T(0.25), 4, c, amb);
    if (c.size() != 1 || c[0] != -1) inconclusive("candidate self-test (outside)");
}
