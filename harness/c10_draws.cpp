// C10 - every call consumes a fixed, predictable amount of generator output.
// Monitor: CountingEngine wrapped around each standard engine (and synthetic engines with odd ranges);
// the integrand reads the draw counter at every invocation.
#include "vf_main.hpp"
#include "mcmap.hpp"
#include "hep/mc-mpi.hpp"
#include <sstream>

typedef VF_T T;
using namespace vf;

#ifndef VF_ENGSET
#define VF_ENGSET 0
#endif

namespace
{

// synthetic engine with range [MIN, MAX] (xorshift64*, reduced into the range)
template <std::uint64_t MIN, std::uint64_t MAX> class Syn
{
public:
    typedef std::uint64_t result_type;
    static constexpr result_type min() { return MIN; }
    static constexpr result_type max() { return MAX; }
    Syn() : s_(88172645463325252ULL) {}
    result_type operator()()
    {
        s_ ^= s_ >> 12; s_ ^= s_ << 25; s_ ^= s_ >> 27;
        std::uint64_t r = s_ * 2685821657736338717ULL;
        return (MAX - MIN == ~std::uint64_t(0)) ? r : MIN + r % (MAX - MIN + 1);
    }
    void discard(unsigned long long n) { for (; n; --n) (*this)(); }
    friend bool operator==(Syn const& a, Syn const& b) { return a.s_ == b.s_; }
    template <typename C, typename Tr> friend std::basic_ostream<C, Tr>& operator<<(std::basic_ostream<C, Tr>& o, Syn const& e) { return o << e.s_; }
    template <typename C, typename Tr> friend std::basic_istream<C, Tr>& operator>>(std::basic_istream<C, Tr>& i, Syn& e) { return i >> e.s_; }
private:
    std::uint64_t s_;
};

struct CallLog { std::vector<std::uint64_t> draws_at_call, discarded_at_call; std::uint64_t n = 0; int pattern = 0; };
thread_local CallLog* g_log = 0;

T pattern_value(int pattern, std::uint64_t n)
{
    switch (pattern)
    {
    case 0: return T(1) + T(n % 7);
    case 1: return T();                                         // identically zero
    case 2: return (n % 3 == 0) ? std::numeric_limits<T>::quiet_NaN() : T(n % 5);
    case 3: return (n % 2) ? std::numeric_limits<T>::infinity() : -std::numeric_limits<T>::infinity();
    default: return (n % 4 == 0) ? T() : (n % 4 == 1 ? T(-2.5) : (n % 4 == 2 ? std::numeric_limits<T>::quiet_NaN() : T(3)));
    }
}

template <typename P> T rec_f(P const& p)
{
    CallLog& l = *g_log;
    l.draws_at_call.push_back(drawlog().draws);
    l.discarded_at_call.push_back(drawlog().discarded);
    (void)p;
    return pattern_value(l.pattern, l.n++);
}

struct GoOn { template <typename C> bool operator()(C const&) const { return true; } };

// k measured on the real standard library
template <typename E> std::uint64_t measure_k()
{
    CountingEngine<E> e;
    drawlog() = DrawLog();
    (void)std::generate_canonical<T, std::numeric_limits<T>::digits>(e);
    return drawlog().draws;
}

template <typename E> void judge_run(char const* ename, char const* integ, std::size_t per_call, std::uint64_t k, std::vector<std::size_t> const& calls,
    CallLog const& log, E const& initial, E const& final_gen, J const& info, bool stopped_early_ok)
{
    std::uint64_t total = 0;
    for (auto c : calls) total += c;
    (void)stopped_early_ok;
    count("runs");
    if (log.draws_at_call.size() != total) { viol(std::string("call-count:") + integ, J(info).u("invocations", log.draws_at_call.size()).u("expected", total)); return; }
    for (std::size_t i = 0; i < log.draws_at_call.size(); ++i)
    {
        std::uint64_t expect = (i + 1) * per_call * k;
        count("calls_checked");
        if (log.draws_at_call[i] != expect)
        {
            viol(std::string("draws-per-call:") + integ, J(info).u("call", i).u("draws_so_far", log.draws_at_call[i]).u("expected", expect).u("k", k));
            return;
        }
    }
    if (drawlog().draws != total * per_call * k) { viol(std::string("draws-after-last-call:") + integ, J(info).u("draws", drawlog().draws).u("expected", total * per_call * k)); return; }
    if (drawlog().discard_calls != 0) { viol(std::string("serial-run-discards:") + integ, J(info).u("discarded", drawlog().discarded)); return; }
    E ref = initial;
    ref.discard(total * per_call * k);
    if (!(ref == final_gen)) viol(std::string("stored-generator-not-initial-advanced:") + integ, info);
    (void)ename;
}

template <typename E> void engine_case(Rng& rng, char const* ename)
{
    typedef CountingEngine<E> CE;
    std::uint64_t k = measure_k<E>();
    std::uint64_t kp = hep::random_number_usage<T, CE>();
    std::uint64_t kp2 = hep::random_number_usage<T, E>();
    J base;
    base.s("T", tname<T>::get()).s("engine", ename).u("k_measured", k).u("k_predicted", kp);
    count("engine_type_pairs_checked");
    if (kp != k || kp2 != k) viol(std::string("predictor-mismatch:") + ename + ":" + tname<T>::get(), base);
    std::size_t dims = rng.range(1, 5);
    static const std::size_t cpool[] = {0, 1, 7, 100, 13};
    std::vector<std::size_t> calls;
    std::size_t iters = rng.range(1, 3);
    for (std::size_t i = 0; i < iters; ++i) calls.push_back(cpool[rng.below(5)]);
    int integ = rng.below(3);
    CallLog log;
    log.pattern = rng.below(5);
    g_log = &log;
    E seed_engine;
    seed_engine.discard(rng.below(1000));
    CE initial(seed_engine);
    J info(base);
    info.u("dims", dims).uv("calls", calls).i("pattern", log.pattern);
    drawlog() = DrawLog();
    if (integ == 0)
    {
        typedef hep::plain_chkpt_with_rng<CE, T> chk_t;
        auto r = hep::plain(hep::make_integrand<T>(rec_f<hep::mc_point<T>>, dims), calls, chk_t(initial), GoOn());
        judge_run<CE>(ename, "plain", dims, k, calls, log, initial, r.generator(), J(info).s("integrator", "plain"), false);
    }
    else if (integ == 1)
    {
        std::size_t bins = rng.range(2, 9);
        hep::vegas_pdf<T> pdf(dims, bins);
        if (rng.below(2))
            for (std::size_t d = 0; d < dims; ++d)
            {
                std::vector<T> x(bins + 1);
                for (auto& v : x) v = T(rng.u01l());
                x[0] = T(0); x[bins] = T(1);
                std::sort(x.begin(), x.end());
                for (std::size_t b = 0; b <= bins; ++b) pdf.set_bin_left(d, b, x[b]);
            }
        typedef hep::vegas_chkpt_with_rng<CE, T> chk_t;
        chk_t start(initial, pdf, T(1.5));
        bool reloaded = rng.below(3) == 0;
        if (reloaded)
        {
            // a checkpoint that only knows its number of bins goes through text before the first iteration (the integrator supplies the dimensions)
            std::ostringstream o;
            chk_t(initial, bins, T(1.5)).serialize(o);
            std::istringstream in(o.str());
            start = chk_t(in);
            count("vegas_runs_started_from_a_reloaded_never-run_checkpoint");
        }
        auto r = hep::vegas(hep::make_integrand<T>(rec_f<hep::vegas_point<T>>, dims), calls, start, GoOn());
        judge_run<CE>(ename, "vegas", dims, k, calls, log, initial, r.generator(), J(info).s("integrator", "vegas").u("bins", bins).b("reloaded_before_first_iteration", reloaded), false);
    }
    else
    {
        std::size_t channels = rng.range(1, 5);
        PowerMap<T> map;
        for (std::size_t c = 0; c < channels; ++c) map.a.push_back(T(c) * T(0.5));
        std::vector<T> w(channels);
        for (auto& x : w) x = rng.below(3) ? T(rng.range(1, 9)) : T();
        bool any = false;
        for (T x : w) any = any || x != T();
        if (!any) w[0] = T(1);
        typedef hep::multi_channel_chkpt_with_rng<CE, T> chk_t;
        // the map may produce fewer coordinates than it takes random numbers: the cost is 1 + dimensions(), whatever map_dimensions() is
        std::size_t coords = rng.range(1, dims);
        if (coords != dims) count("multi_channel_runs_with_map_dimensions_differing_from_dimensions");
        auto r = hep::multi_channel(hep::make_multi_channel_integrand<T>(rec_f<hep::multi_channel_point<T>>, dims, map, coords, channels), calls,
            chk_t(initial, w, T(), T(0.25)), GoOn());
        judge_run<CE>(ename, "multi_channel", dims + 1, k, calls, log, initial, r.generator(), J(info).s("integrator", "multi_channel").fv("weights", w).u("map_dimensions", coords), false);
    }
    g_log = 0;
    ++ctx().evaluations;
    if (k >= 2) count("runs_with_k>=2");
    nontrivial(mix(hash_str(info.str()), integ));
    sample(info, 4);
}


// ---- MPI forms on the thread shim: every rank has its own (thread-local) draw counter -------------------------------------------------
// Oracle per rank: (a) between two of its own calls inside an iteration exactly per_call*k numbers are drawn and nothing is discarded,
// (b) whenever the callback runs after iteration j the generator stored in the checkpoint is the initial one advanced by
// per_call * k * (calls_0 + ... + calls_j), on every rank, and (c) that is also the total this rank's generator has moved (drawn + discarded).
template <typename CE> struct RankRec
{
    CallLog log;
    std::vector<CE> stored;                 // chkpt.generator() at each callback
    std::vector<std::uint64_t> moved;       // draws + discarded at each callback
    std::vector<std::uint64_t> calls_seen;  // own calls so far at each callback
};

template <typename CE> struct MpiCb
{
    RankRec<CE>* r;
    template <typename C> bool operator()(MPI_Comm, C const& chk)
    {
        r->stored.push_back(chk.generator());
        r->moved.push_back(drawlog().draws + drawlog().discarded);
        r->calls_seen.push_back(r->log.draws_at_call.size());
        return true;
    }
};

template <typename E> void mpi_case(Rng& rng, char const* ename)
{
    typedef CountingEngine<E> CE;
    std::uint64_t k = measure_k<E>();
    int P = int(rng.range(2, 5));
    std::size_t dims = rng.range(1, 4);
    std::vector<std::size_t> calls;
    std::size_t iters = rng.range(1, 4);
    for (std::size_t i = 0; i < iters; ++i)
    {
        std::size_t pool[] = {0, 1, 7, 100, 13, std::size_t(P - 1), std::size_t(P + 1), std::size_t(3 * P)};
        calls.push_back(pool[rng.below(8)]);
    }
    int integ = rng.below(3);
    int pattern = rng.below(5);
    std::size_t coords = integ == 2 ? rng.range(1, dims) : dims;
    std::size_t per_call = integ == 2 ? dims + 1 : dims;
    std::size_t channels = rng.range(1, 4), bins = rng.range(2, 9);
    E seed_engine;
    seed_engine.discard(rng.below(1000));
    CE initial(seed_engine);
    static char const* names[] = {"mpi_plain", "mpi_vegas", "mpi_multi_channel"};
    J info;
    info.s("T", tname<T>::get()).s("engine", ename).u("k_measured", k).s("integrator", names[integ]).i("ranks", P).u("dims", dims).u("map_dimensions", coords)
        .uv("calls", calls).i("pattern", pattern);
    std::vector<RankRec<CE>> recs(P);
    VfWorld world;
    vf_mpi_run(world, P, rng.next(), [&](int rank, MPI_Comm comm) {
        RankRec<CE>& rr = recs[rank];
        rr.log.pattern = pattern;
        g_log = &rr.log;
        drawlog() = DrawLog();
        MpiCb<CE> cb = {&rr};
        if (integ == 0) hep::mpi_plain(comm, hep::make_integrand<T>(rec_f<hep::mc_point<T>>, dims), calls, hep::plain_chkpt_with_rng<CE, T>(initial), cb);
        else if (integ == 1) hep::mpi_vegas(comm, hep::make_integrand<T>(rec_f<hep::vegas_point<T>>, dims), calls, hep::vegas_chkpt_with_rng<CE, T>(initial, bins, T(1.5)), cb);
        else
        {
            PowerMap<T> map;
            for (std::size_t c = 0; c < channels; ++c) map.a.push_back(T(c) * T(0.5));
            hep::mpi_multi_channel(comm, hep::make_multi_channel_integrand<T>(rec_f<hep::multi_channel_point<T>>, dims, map, coords, channels), calls,
                hep::multi_channel_chkpt_with_rng<CE, T>(initial, T(), T(0.25)), cb);
        }
        g_log = 0;
    });
    ++ctx().evaluations;
    count("mpi_runs");
    if (coords != dims) count("mpi_multi_channel_runs_with_map_dimensions_differing_from_dimensions");
    if (world.aborted) { viol("mpi-run-aborted", J(info).s("reason", world.abort_reason)); return; }
    std::uint64_t own_total = 0;
    for (int rank = 0; rank < P; ++rank)
    {
        RankRec<CE> const& rr = recs[rank];
        J ri = J(info).i("rank", rank);
        if (rr.stored.size() != iters) { viol(std::string("mpi:callback-count:") + names[integ], J(ri).u("seen", rr.stored.size())); return; }
        own_total += rr.log.draws_at_call.size();
        std::uint64_t sum = 0;
        std::size_t first = 0;
        for (std::size_t j = 0; j < iters; ++j)
        {
            sum += calls[j];
            // (a) inside the iteration
            for (std::size_t i = first + 1; i < rr.calls_seen[j]; ++i)
            {
                count("mpi_calls_checked");
                if (rr.log.draws_at_call[i] - rr.log.draws_at_call[i - 1] != per_call * k || rr.log.discarded_at_call[i] != rr.log.discarded_at_call[i - 1])
                {
                    viol(std::string("mpi:draws-per-call:") + names[integ], J(ri).u("iteration", j).u("own_call", i).u("drawn", rr.log.draws_at_call[i] - rr.log.draws_at_call[i - 1])
                        .u("discarded", rr.log.discarded_at_call[i] - rr.log.discarded_at_call[i - 1]).u("expected", per_call * k));
                    return;
                }
            }
            first = rr.calls_seen[j];
            // (b), (c)
            std::uint64_t expect = sum * per_call * k;
            count("mpi_stored_generators_checked");
            if (rr.moved[j] != expect) { viol(std::string("mpi:generator-moved-not-calls-times-usage:") + names[integ], J(ri).u("iteration", j).u("moved", rr.moved[j]).u("expected", expect)); return; }
            CE ref = initial;
            ref.discard(expect);
            if (!(ref == rr.stored[j])) { viol(std::string("mpi:stored-generator-not-initial-advanced:") + names[integ], J(ri).u("iteration", j).u("expected_advance", expect)); return; }
        }
    }
    std::uint64_t total = 0;
    for (auto c : calls) total += c;
    if (own_total != total) { viol(std::string("mpi:call-count:") + names[integ], J(info).u("invocations", own_total).u("expected", total)); return; }
    if (k >= 2) count("runs_with_k>=2");
    nontrivial(mix(hash_str(info.str()), 77));
    sample(info, 3);
}

// scripted engine that forces canonical numbers of exactly 0 (and the largest value below 1) into random
// positions: the consumption per call must not depend on the values drawn
void scripted_case(Rng& rng)
{
    std::size_t dims = rng.range(1, 4);
    int integ = rng.below(3);
    std::size_t per_call = integ == 2 ? dims + 1 : dims;
    std::vector<std::size_t> calls;
    std::size_t iters = rng.range(1, 3), total = 0;
    for (std::size_t i = 0; i < iters; ++i) { calls.push_back(rng.range(5, 60)); total += calls.back(); }
    auto script = std::make_shared<Script>();
    script->tail_seed = rng.next();
    for (std::size_t i = 0; i < total * per_call + 8; ++i)
    {
        unsigned r = rng.below(6);
        script->raw.push_back(r == 0 ? 0 : r == 1 ? ~std::uint64_t(0) : rng.next());
        if (r == 0) count("scripted_zero_numbers");
    }
    ScriptEngine::current() = script;
    ScriptEngine initial(script);
    CallLog log;
    log.pattern = rng.below(5);
    g_log = &log;
    J info;
    info.s("T", tname<T>::get()).s("engine", "scripted-64-bit").u("dims", dims).uv("calls", calls).i("pattern", log.pattern);
    drawlog() = DrawLog();
    if (integ == 0)
    {
        typedef hep::plain_chkpt_with_rng<ScriptEngine, T> chk_t;
        auto r = hep::plain(hep::make_integrand<T>(rec_f<hep::mc_point<T>>, dims), calls, chk_t(initial), GoOn());
        judge_run<ScriptEngine>("scripted", "plain", dims, 1, calls, log, initial, r.generator(), J(info).s("integrator", "plain"), false);
    }
    else if (integ == 1)
    {
        typedef hep::vegas_chkpt_with_rng<ScriptEngine, T> chk_t;
        auto r = hep::vegas(hep::make_integrand<T>(rec_f<hep::vegas_point<T>>, dims), calls, chk_t(initial, rng.range(2, 9), T(1.5)), GoOn());
        judge_run<ScriptEngine>("scripted", "vegas", dims, 1, calls, log, initial, r.generator(), J(info).s("integrator", "vegas"), false);
    }
    else
    {
        std::size_t channels = rng.range(1, 4);
        PowerMap<T> map;
        for (std::size_t c = 0; c < channels; ++c) map.a.push_back(T(c) * T(0.5));
        typedef hep::multi_channel_chkpt_with_rng<ScriptEngine, T> chk_t;
        auto r = hep::multi_channel(hep::make_multi_channel_integrand<T>(rec_f<hep::multi_channel_point<T>>, dims, map, dims, channels), calls,
            chk_t(initial, T(), T(0.25)), GoOn());
        judge_run<ScriptEngine>("scripted", "multi_channel", dims + 1, 1, calls, log, initial, r.generator(), J(info).s("integrator", "multi_channel"), false);
    }
    g_log = 0;
    ++ctx().evaluations;
    count("scripted_runs");
    nontrivial(hash_str(info.str()));
}

// synthetic ranges: the predictor against the measured cost, and constancy of the cost over many numbers
template <std::uint64_t MIN, std::uint64_t MAX> void syn_case(Rng& rng, char const* name, bool run)
{
    typedef Syn<MIN, MAX> E;
    typedef CountingEngine<E> CE;
    std::uint64_t k = measure_k<E>();
    std::uint64_t kp = hep::random_number_usage<T, CE>();
    J info;
    info.s("T", tname<T>::get()).s("engine", name).u("min", MIN).u("max", MAX).u("k_measured", k).u("k_predicted", kp);
    count("synthetic_ranges_checked");
    if (kp != k) viol(std::string("predictor-mismatch:synthetic:") + name + ":" + tname<T>::get(), info);
    {
        CE e;
        drawlog() = DrawLog();
        for (int i = 1; i <= 50; ++i)
        {
            (void)std::generate_canonical<T, std::numeric_limits<T>::digits>(e);
            if (drawlog().draws != std::uint64_t(i) * k) { viol("harness:stdlib-cost-not-constant", info); break; }
        }
    }
    ++ctx().evaluations;
    nontrivial(hash_str(info.str()));
    (void)rng; (void)run;
}

template <std::uint64_t MIN, std::uint64_t MAX> void syn_run(Rng& rng, char const* name)
{
    typedef Syn<MIN, MAX> E;
    typedef CountingEngine<E> CE;
    std::uint64_t k = measure_k<E>();
    J info;
    info.s("T", tname<T>::get()).s("engine", name).u("min", MIN).u("max", MAX).u("k_measured", k);
    CallLog log;
    log.pattern = rng.below(5);
    g_log = &log;
    std::vector<std::size_t> calls(2, 9);
    std::size_t dims = rng.range(1, 3);
    CE initial;
    drawlog() = DrawLog();
    typedef hep::plain_chkpt_with_rng<CE, T> chk_t;
    auto r = hep::plain(hep::make_integrand<T>(rec_f<hep::mc_point<T>>, dims), calls, chk_t(initial), GoOn());
    judge_run<CE>(name, "plain", dims, k, calls, log, initial, r.generator(), J(info).s("integrator", "plain"), false);
    g_log = 0;
    ++ctx().evaluations;
    count("synthetic_runs");
    nontrivial(hash_str(info.str()));
}

#define P2(j) (std::uint64_t(1) << (j))
#define SYN4(j) \
    syn_case<0, P2(j) - 1>(rng, "2^" #j, false); \
    syn_case<0, P2(j)>(rng, "2^" #j "+1", false); \
    syn_case<0, P2(j) - 2>(rng, "2^" #j "-1", false); \
    syn_case<3, P2(j) + 2>(rng, "2^" #j " offset 3", false);

void syn_all(Rng& rng, int part)
{
    switch (part)
    {
    case 0: syn_case<0, 1>(rng, "2^1", false); syn_case<0, 2>(rng, "2^1+1", false); syn_case<5, 6>(rng, "2^1 offset 5", false); SYN4(2) SYN4(3) SYN4(4) SYN4(5) SYN4(6) SYN4(7) SYN4(8) break;
    case 1: SYN4(10) SYN4(12) SYN4(13) SYN4(14) SYN4(15) SYN4(16) SYN4(17) SYN4(20) break;
    case 2: SYN4(24) SYN4(26) SYN4(27) SYN4(28) SYN4(31) SYN4(32) SYN4(33) SYN4(40) break;
    default: SYN4(48) SYN4(52) SYN4(53) SYN4(54) SYN4(60) SYN4(62) SYN4(63)
        syn_case<0, ~std::uint64_t(0)>(rng, "2^64", false);
        syn_case<0, 999>(rng, "10^3", false);
        syn_case<0, 999999999>(rng, "10^9", false);
        syn_case<1, 6>(rng, "die", false);
        syn_run<1, 6>(rng, "die");
        syn_run<0, 999>(rng, "10^3");
        syn_run<0, P2(16)>(rng, "2^16+1");
        syn_run<0, P2(31) - 2>(rng, "2^31-1");
        syn_run<0, ~std::uint64_t(0)>(rng, "2^64");
        break;
    }
}

} // namespace

std::uint64_t vfh_num_cases(bool thorough) { return VF_ENGSET == 3 ? 4 : (thorough ? 30000 : 150); }

void vfh_run_case(std::uint64_t idx, Rng& rng)
{
#if VF_ENGSET == 0
    if (idx % 5 == 4) { mpi_case<std::minstd_rand0>(rng, "minstd_rand0"); return; }
    switch (idx % 3) { case 0: engine_case<std::minstd_rand0>(rng, "minstd_rand0"); break; case 1: engine_case<std::minstd_rand>(rng, "minstd_rand"); break; default: engine_case<std::knuth_b>(rng, "knuth_b"); break; }
#elif VF_ENGSET == 1
    if (idx % 4 == 3) { scripted_case(rng); return; }
    if (idx % 5 == 4) { mpi_case<std::mt19937>(rng, "mt19937"); return; }
    switch (idx % 3) { case 0: engine_case<std::mt19937>(rng, "mt19937"); break; case 1: engine_case<std::mt19937_64>(rng, "mt19937_64"); break; default: engine_case<std::ranlux24_base>(rng, "ranlux24_base"); break; }
#elif VF_ENGSET == 2
    switch (idx % 3) { case 0: engine_case<std::ranlux48_base>(rng, "ranlux48_base"); break; case 1: engine_case<std::ranlux24>(rng, "ranlux24"); break; default: engine_case<std::ranlux48>(rng, "ranlux48"); break; }
#else
    syn_all(rng, (int)idx);
#endif
}

void vfh_selftest() {}
