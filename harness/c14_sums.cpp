// C14 - long sums do not lose accuracy with the number of calls (compensated summation).
// Monitor: hep::plain_iteration on integrands whose values are scripted by call ordinal (weight 1);
// oracle: exact sum (Shewchuk expansion) of the very values handed to the library.
#include "vf_main.hpp"
#include "hep/mc.hpp"

typedef VF_T T;
using namespace vf;

namespace
{

struct Seq
{
    int kind;
    std::uint64_t n;
    std::uint64_t s;       // per-sequence seed
    T scale;
    T sign;                // +1 or -1: every sequence is also run mirrored (negative running sums)
};

char const* kind_name(int k)
{
    static char const* names[] = {"one-large-then-small", "alternating-cancellation", "geometric-decay", "random-magnitudes-20-decades",
        "large-then-all-ones", "small-negative-after-large", "random-signs"};
    return names[k];
}

// value of the i-th call; pure function of (sequence, i)
inline T value_at_pos(Seq const& q, std::uint64_t i);
inline T value_at(Seq const& q, std::uint64_t i) { return q.sign * value_at_pos(q, i); }
inline T value_at_pos(Seq const& q, std::uint64_t i)
{
    T const e = std::numeric_limits<T>::epsilon();
    switch (q.kind)
    {
    case 0: return i == 0 ? q.scale : q.scale * (e / T(4));
    case 1: { T big = q.scale * T(1 + (i / 2) % 3); return (i % 2 == 0) ? big : -big + q.scale * e * T(0.125); }
    case 2: { std::uint64_t k = i % 4096; return q.scale * std::ldexp(T(1), -int(k % 200)) * T(1 + (k % 5) * 0.25); }
    case 3: { std::uint64_t z = mix(q.s, i); int ex = int(z % 67) - 33; return q.scale * std::ldexp(T(1) + T((z >> 20) & 0xffff) / T(65536), ex); }
    case 4: return i == 0 ? std::ldexp(T(1), std::numeric_limits<T>::digits) : T(1);
    case 5: return i == 0 ? q.scale : -q.scale * e * T(0.25);
    default: { std::uint64_t z = mix(q.s, i); T v = q.scale * (T(1) + T((z >> 20) & 0xfff) / T(4096)) * (i % 97 == 0 ? T(1) / e : T(1)); return (z & 1) ? v : -v; }
    }
}

struct State
{
    Seq q;
    std::uint64_t i;
    std::size_t bins;
    ExactSum* ex;          // exact sum of everything returned
    ExactSum* exabs;
    std::vector<ExactSum>* bin_ex;
    std::vector<ExactSum>* bin_exabs;
    T naive;
    std::vector<T>* bin_naive;
};
State* g = 0;

T f_plain(hep::mc_point<T> const&)
{
    State& s = *g;
    T v = value_at(s.q, s.i++);
    s.ex->add(v);
    s.exabs->add(std::fabs(v));
    volatile T nv = s.naive + v;
    s.naive = nv;
    return v;
}

T f_dist(hep::mc_point<T> const&, hep::projector<T>& proj)
{
    State& s = *g;
    std::uint64_t i = s.i++;
    T v = value_at(s.q, i);
    s.ex->add(v);
    s.exabs->add(std::fabs(v));
    volatile T nv = s.naive + v;
    s.naive = nv;
    // second, different sequence for the bins: every bin gets its own adversarial stream (bin width 1)
    std::size_t b = i % s.bins;
    Seq q2 = s.q;
    q2.kind = (s.q.kind + 1 + int(b)) % 7;
    T bv = value_at(q2, i / s.bins);
    if (bv == bv)
    {
        proj.add(0, T(b) + T(0.5), bv);
        (*s.bin_ex)[b].add(bv);
        (*s.bin_exabs)[b].add(std::fabs(bv));
        volatile T nb = (*s.bin_naive)[b] + bv;
        (*s.bin_naive)[b] = nb;
    }
    return v;
}

LD tolerance(std::uint64_t n, LD sumabs) { return (4 + 4 * (LD)n * eps<T>()) * eps<T>() * sumabs; }

void run_case(Rng& rng, std::uint64_t idx)
{
    Seq q;
    q.kind = idx % 7;
    std::uint64_t nmax = ctx().thorough ? 10000000ULL : 1000000ULL;
#ifdef VF_SMALL_N
    nmax = 100000;
#endif
    static const std::uint64_t ns[] = {1, 2, 3, 10, 1000, 100000};
    q.n = (idx / 7) % 3 == 0 ? ns[rng.below(6)] : (rng.below(2) ? nmax : rng.range(nmax / 10, nmax));
    if (q.n > nmax) q.n = nmax;
    q.s = rng.next();
    q.scale = std::ldexp(T(1) + T(rng.u01l()), int(rng.below(40)) - 20);
    // running sums within `digits` binary orders of the smallest normal number: the compensation term is subnormal there
    bool near_min = rng.below(4) == 0;
    if (near_min) q.scale = std::ldexp(T(1) + T(rng.u01l()), std::numeric_limits<T>::min_exponent - 1 + int(rng.below(std::numeric_limits<T>::digits + 3)));
    q.sign = rng.below(2) ? T(1) : T(-1);
    bool with_dist = rng.below(3) == 0;
    std::size_t bins = rng.range(1, 4);
    ExactSum ex, exabs;
    std::vector<ExactSum> bex(bins), bexabs(bins);
    std::vector<T> bnaive(bins, T());
    State st = {q, 0, bins, &ex, &exabs, &bex, &bexabs, T(), &bnaive};
    g = &st;
    std::mt19937 eng(1);
    T sum;
    std::vector<T> bin_sums;
    if (with_dist)
    {
        auto r = hep::plain_iteration(hep::make_integrand<T>(f_dist, 1, hep::make_dist_params<T>(bins, T(0), T(bins), "b")), q.n, eng);
        sum = r.sum();
        for (auto const& b : r.distributions()[0].results()) bin_sums.push_back(b.sum());
    }
    else
    {
        auto r = hep::plain_iteration(hep::make_integrand<T>(f_plain, 1), q.n, eng);
        sum = r.sum();
    }
    g = 0;
    J info;
    info.s("T", tname<T>::get()).s("sequence", kind_name(q.kind)).u("N", q.n).f("scale", q.scale).b("near_min_normal", near_min).f("sign", q.sign).b("with_distribution", with_dist).u("bins", with_dist ? bins : 0);
    ++ctx().evaluations;
    count("values_summed", q.n);
    if (st.i != q.n) { viol("harness:call-count", J(info).u("calls", st.i)); return; }
    LD exact = ex.value(), sumabs = exabs.value();
    LD tol = tolerance(q.n, sumabs);
    bool naive_breaks = std::fabs((LD)st.naive - exact) > tol;
    if (!(std::fabs((LD)sum - exact) <= tol))
        viol(std::string("sum-inaccurate:") + kind_name(q.kind), J(info).f("sum", sum).f("exact", exact).f("sum_of_magnitudes", sumabs).f("tol", tol).f("naive", st.naive));
    if (with_dist)
    {
        for (std::size_t b = 0; b < bins; ++b)
        {
            LD e = bex[b].value(), sa = bexabs[b].value();
            LD t = tolerance(q.n / bins + 1, sa);
            count("bins_checked");
            if (std::fabs((LD)bnaive[b] - e) > t) naive_breaks = true;
            if (!(std::fabs((LD)bin_sums[b] - e) <= t))
            {
                viol("bin-sum-inaccurate", J(info).u("bin", b).f("sum", bin_sums[b]).f("exact", e).f("sum_of_magnitudes", sa).f("tol", t));
                break;
            }
        }
    }
    if (naive_breaks) { count("sequences_where_naive_summation_breaks_bound"); nontrivial(hash_str(info.str())); }
    if (q.n >= 1000000) count("runs_with_N>=1e6");
    if (near_min && q.kind != 4) count("runs_with_sums_near_the_smallest_normal_number");
    if (naive_breaks) sample(info, 4);
}

} // namespace

std::uint64_t vfh_num_cases(bool thorough)
{
#ifdef VF_SMALL_N
    return thorough ? 210 : 42;
#else
    return thorough ? 840 : 84;
#endif
}

void vfh_run_case(std::uint64_t idx, Rng& rng) { run_case(rng, idx); }

void vfh_selftest()
{
    // the exact-sum oracle on a sequence with known exact result
    ExactSum e;
    e.add(1.0L);
    for (int i = 0; i < 1000; ++i) e.add(std::ldexp(1.0L, -70));
    e.add(-1.0L);
    if (e.value() != 1000 * std::ldexp(1.0L, -70)) inconclusive("ExactSum self-test failed");
}
