// C05 - the checkpoint text format is lossless.
// Checkpoints are built through the public constructors from generated field values, written to text, read
// back and compared accessor by accessor, bit for bit; every stored generator is compared as well.
#include "vf_main.hpp"
#include "hep/mc.hpp"

typedef VF_T T;
using namespace vf;

namespace
{

T gen_value(Rng& rng, std::string* cls = 0)
{
    T v;
    char const* c;
    switch (rng.below(10))
    {
    case 0: v = T(); c = "+0"; break;
    case 1: v = -T(); c = "-0"; break;
    case 2: v = std::numeric_limits<T>::denorm_min() * T(1 + rng.below(1000)); c = "denormal"; break;
    case 3: v = std::numeric_limits<T>::max(); c = "max"; break;
    case 4: v = std::numeric_limits<T>::min(); c = "min-normal"; break;
    case 5: v = std::nextafter(T(1), T(2)); c = "1+ulp"; break;
    case 6: v = T(1) / T(3); c = "1/3"; break;
    default:
    {
        // random bit pattern with a finite exponent: needs all max_digits10 digits
        int e = int(rng.below(2 * std::numeric_limits<T>::max_exponent - 4)) - std::numeric_limits<T>::max_exponent + 2;
        v = std::ldexp(T(1) + T(rng.u01l()), e);
        if (std::is_same<T, long double>::value) v = std::ldexp(1.0L + rng.u01l() + std::ldexp(rng.u01l(), -60), e);
        c = "random-bits";
        break;
    }
    }
    if (rng.below(2)) v = -v;
    if (!std::isfinite(v)) v = T(1);
    if (cls) *cls = c;
    return v;
}

std::size_t gen_count(Rng& rng)
{
    switch (rng.below(6))
    {
    case 0: return 0;
    case 1: return ~std::size_t(0);
    case 2: return std::size_t(1) << 32;
    default: return rng.next() >> rng.below(60);
    }
}

std::string gen_name(Rng& rng)
{
    static char const* names[] = {"d1", "two words", "", " ", "  lead", "trail  ", "#x", "12 3", "\tTab", "a  b   c", "ends with CR\r", "\r", "mid\rdle", "trailing tab\t",
        "E_{\\nu} [GeV]", "back\\slash", "\\", "\\n", "quote\"d", "%s %d", "\\t\\r\\0"};
    std::size_t k = rng.below(22);
    if (k == 21) return std::string(300, 'x') + " end";
    return names[k];
}

char const* name_class(std::string const& n)
{
    if (n.empty()) return "empty";
    if (n.find_first_not_of(" \t") == std::string::npos) return "blank";
    if (n[0] == ' ' || n[0] == '\t') return "leading-blank";
    if (n[n.size() - 1] == ' ' || n[n.size() - 1] == '\t') return "trailing-blank";
    if (n.find('\r') != std::string::npos) return "carriage-return";
    if (n.find('\\') != std::string::npos) return "backslash";
    return "ordinary";
}

hep::mc_result<T> gen_mc(Rng& rng) { return hep::mc_result<T>(gen_count(rng), gen_count(rng), gen_count(rng), gen_value(rng), gen_value(rng)); }

hep::distribution_result<T> gen_dist(Rng& rng)
{
    bool two = rng.below(2);
    std::size_t bx = rng.range(1, 8), by = two ? rng.range(1, 5) : 1;
    T xmin = gen_value(rng), ymin = gen_value(rng);
    T xmax = T(rng.u01l() * 10), ymax = T(rng.u01l() * 10);
    if (std::fabs(xmin) > T(1e30)) xmin = T(-2.5);
    if (std::fabs(ymin) > T(1e30)) ymin = T(0.125);
    hep::distribution_parameters<T> p = two ? hep::distribution_parameters<T>(bx, by, xmin, xmax, ymin, ymax, gen_name(rng))
                                            : hep::distribution_parameters<T>(bx, xmin, xmax, gen_name(rng));
    std::vector<hep::mc_result<T>> bins;
    for (std::size_t i = 0; i < bx * by; ++i) bins.push_back(gen_mc(rng));
    return hep::distribution_result<T>(p, bins);
}

hep::plain_result<T> gen_plain(Rng& rng, std::size_t ndist)
{
    std::vector<hep::distribution_result<T>> d;
    for (std::size_t i = 0; i < ndist; ++i) d.push_back(gen_dist(rng));
    hep::mc_result<T> m = gen_mc(rng);
    return hep::plain_result<T>(d, m.calls(), m.non_zero_calls(), m.finite_calls(), m.sum(), m.sum_of_squares());
}

hep::vegas_pdf<T> gen_pdf(Rng& rng, std::size_t dims, std::size_t bins)
{
    hep::vegas_pdf<T> p(dims, bins);
    for (std::size_t d = 0; d < dims; ++d) for (std::size_t b = 0; b <= bins; ++b) p.set_bin_left(d, b, rng.below(3) ? T(rng.u01l()) : gen_value(rng));
    return p;
}

struct Cmp
{
    J info;
    bool ok = true;
    std::string first;
    template <typename V> void num(char const* what, V a, V b)
    {
        count("fields_compared");
        if (!same_bits(a, b) && ok) { ok = false; first = what; info.s("field", what).f("written", a).f("read_back", b); }
    }
    void cnt(char const* what, std::size_t a, std::size_t b)
    {
        count("fields_compared");
        if (a != b && ok) { ok = false; first = what; info.s("field", what).u("written", a).u("read_back", b); }
    }
    void str(char const* what, std::string const& a, std::string const& b)
    {
        count("fields_compared");
        if (a != b && ok) { ok = false; first = std::string(what) + ":" + name_class(a); info.s("field", what).s("written", a).s("read_back", b); }
    }
};

void cmp_mc(Cmp& c, hep::mc_result<T> const& a, hep::mc_result<T> const& b)
{
    c.cnt("calls", a.calls(), b.calls());
    c.cnt("non_zero_calls", a.non_zero_calls(), b.non_zero_calls());
    c.cnt("finite_calls", a.finite_calls(), b.finite_calls());
    c.num("sum", a.sum(), b.sum());
    c.num("sum_of_squares", a.sum_of_squares(), b.sum_of_squares());
}

void cmp_plain(Cmp& c, hep::plain_result<T> const& a, hep::plain_result<T> const& b)
{
    cmp_mc(c, a, b);
    c.cnt("distributions.size", a.distributions().size(), b.distributions().size());
    for (std::size_t i = 0; i < a.distributions().size() && i < b.distributions().size(); ++i)
    {
        auto const& pa = a.distributions()[i].parameters();
        auto const& pb = b.distributions()[i].parameters();
        c.str("distribution.name", pa.name(), pb.name());
        c.cnt("distribution.bins_x", pa.bins_x(), pb.bins_x());
        c.cnt("distribution.bins_y", pa.bins_y(), pb.bins_y());
        c.num("distribution.x_min", pa.x_min(), pb.x_min());
        c.num("distribution.y_min", pa.y_min(), pb.y_min());
        c.num("distribution.bin_size_x", pa.bin_size_x(), pb.bin_size_x());
        c.num("distribution.bin_size_y", pa.bin_size_y(), pb.bin_size_y());
        auto const& ra = a.distributions()[i].results();
        auto const& rb = b.distributions()[i].results();
        c.cnt("distribution.bins", ra.size(), rb.size());
        for (std::size_t k = 0; k < ra.size() && k < rb.size(); ++k) cmp_mc(c, ra[k], rb[k]);
    }
}

void cmp_pdf(Cmp& c, hep::vegas_pdf<T> const& a, hep::vegas_pdf<T> const& b)
{
    c.cnt("pdf.bins", a.bins(), b.bins());
    c.cnt("pdf.dimensions", a.dimensions(), b.dimensions());
    if (a.bins() == b.bins() && a.dimensions() == b.dimensions())
        for (std::size_t d = 0; d < a.dimensions(); ++d) for (std::size_t k = 0; k <= a.bins(); ++k) c.num("pdf.boundary", a.bin_left(d, k), b.bin_left(d, k));
}

void cmp_vec(Cmp& c, char const* what, std::vector<T> const& a, std::vector<T> const& b)
{
    c.cnt(what, a.size(), b.size());
    for (std::size_t i = 0; i < a.size() && i < b.size(); ++i) c.num(what, a[i], b[i]);
}

void cmp_result(Cmp& c, hep::plain_result<T> const& a, hep::plain_result<T> const& b) { cmp_plain(c, a, b); }
void cmp_result(Cmp& c, hep::vegas_result<T> const& a, hep::vegas_result<T> const& b)
{
    cmp_plain(c, a, b);
    cmp_pdf(c, a.pdf(), b.pdf());
    cmp_vec(c, "vegas.adjustment_data", a.adjustment_data(), b.adjustment_data());
}
void cmp_result(Cmp& c, hep::multi_channel_result<T> const& a, hep::multi_channel_result<T> const& b)
{
    cmp_plain(c, a, b);
    cmp_vec(c, "mc.adjustment_data", a.adjustment_data(), b.adjustment_data());
    cmp_vec(c, "mc.channel_weights", a.channel_weights(), b.channel_weights());
}

// a VEGAS checkpoint that never saw an integrator has no grid yet (pdf() is not defined for it)
template <typename C> bool text_has_grid(C const& a)
{
    std::ostringstream o;
    a.serialize(o);
    std::string t = o.str();
    // the line after alpha holds "bins dims x..."; dims == 0 means no grid
    std::size_t p = t.find('\n', t.find('\n', t.find('\n') + 1) + 1);
    if (p == std::string::npos) return false;
    std::istringstream in(t.substr(p + 1));
    std::size_t bins = 0, dims = 0;
    in >> bins >> dims;
    return dims != 0;
}

template <typename C> void cmp_extra(Cmp&, C const&, C const&, hep::plain_result<T> const*) {}
template <typename C> void cmp_extra(Cmp& c, C const& a, C const& b, hep::vegas_result<T> const*)
{
    c.num("alpha", a.alpha(), b.alpha());
    if (a.results().empty() && b.results().empty() && text_has_grid(a)) cmp_pdf(c, a.pdf(), b.pdf());
}
template <typename C> void cmp_extra(Cmp& c, C const& a, C const& b, hep::multi_channel_result<T> const*)
{
    c.num("beta", a.beta(), b.beta());
    c.num("min_weight", a.min_weight(), b.min_weight());
    if (a.results().empty() && b.results().empty()) cmp_vec(c, "first_channel_weights", a.channel_weights(), b.channel_weights());
}

template <typename E> E advanced(Rng& rng)
{
    E e;
    e.discard(rng.below(2000));
    return e;
}

// write -> read -> compare; `gens` are the engines that were stored, oldest first
template <typename E, typename C> void round_trip(C const& chk, std::vector<E> const& gens, J const& info, char const* kind, bool extreme)
{
    std::ostringstream out;
    chk.serialize(out);
    std::string text = out.str();
    std::istringstream in(text);
    ++ctx().evaluations;
    count(std::string("checkpoints_") + kind);
    Cmp c;
    c.info = info;
    try
    {
        C back(in);
        if (in.fail()) { viol(std::string("stream-failed-after-reading:") + kind, J(info).s("text_head", text.substr(0, 300))); return; }
        std::string rest;
        std::getline(in, rest, '\0');
        if (rest.find_first_not_of(" \t\r\n") != std::string::npos) { viol(std::string("unread-tokens-left:") + kind, J(info).s("rest", rest.substr(0, 200))); return; }
        c.cnt("results.size", chk.results().size(), back.results().size());
        for (std::size_t i = 0; i < chk.results().size() && i < back.results().size(); ++i) cmp_result(c, chk.results()[i], back.results()[i]);
        typename C::result_type const* tag = 0;
        cmp_extra(c, chk, back, tag);
        if (c.ok && !(back.generator() == gens.back())) { c.ok = false; c.first = "generator()"; }
        if (!c.ok) { viol(std::string("field-changed:") + c.first, J(c.info).s("kind", kind)); return; }
        // every stored generator: the trailing results+1 lines of the re-serialised text
        std::ostringstream out2;
        back.serialize(out2);
        std::string text2 = out2.str();
        if (text2 != text) { viol(std::string("re-serialised-text-differs:") + kind, J(info)); return; }
        std::vector<std::string> lines;
        std::size_t pos = 0;
        while (pos <= text2.size()) { std::size_t q = text2.find('\n', pos); if (q == std::string::npos) q = text2.size(); lines.push_back(text2.substr(pos, q - pos)); pos = q + 1; }
        if (lines.size() < gens.size()) { viol("generator-records-missing", info); return; }
        for (std::size_t i = 0; i < gens.size(); ++i)
        {
            std::istringstream gi(lines[lines.size() - gens.size() + i]);
            E e;
            gi >> std::ws >> e;
            count("stored_generators_compared");
            if (gi.fail() || !(e == gens[i])) { viol(std::string("stored-generator-changed:") + kind, J(info).u("index", i)); return; }
        }
    }
    catch (std::exception const& e)
    {
        viol(std::string("exception-while-reading:") + kind, J(info).s("what", e.what()));
        return;
    }
    if (!chk.results().empty() && extreme) nontrivial(hash_str(text));
}

template <typename E> void engine_case(Rng& rng, char const* ename)
{
    int kind = rng.below(3);
    std::size_t nres = rng.below(5), ndist = rng.below(4);
    std::vector<E> gens;
    gens.push_back(advanced<E>(rng));
    J info;
    info.s("T", tname<T>::get()).s("engine", ename).u("results", nres).u("distributions", ndist);
    bool extreme = true;
    if (kind == 0)
    {
        typedef hep::plain_chkpt_with_rng<E, T> C;
        C chk(gens[0]);
        for (std::size_t i = 0; i < nres; ++i) { gens.push_back(advanced<E>(rng)); chk.add(gen_plain(rng, ndist), gens.back()); }
        round_trip<E>(chk, gens, info, "plain", extreme);
        if (nres) sample(J(info).s("kind", "plain"), 3);
    }
    else if (kind == 1)
    {
        typedef hep::vegas_chkpt_with_rng<E, T> C;
        std::size_t dims = rng.range(1, 4), bins = rng.range(2, 64);
        T alpha = gen_value(rng);
        bool user = rng.below(2);
        C chk = user ? C(gens[0], gen_pdf(rng, dims, bins), alpha) : C(gens[0], bins, alpha);
        bool never_run = !user && nres == 0 && rng.below(2);      // a default checkpoint written before any integrator saw it
        if (!never_run) chk.dimensions(dims); else count("default_checkpoints_never_run");
        for (std::size_t i = 0; i < nres; ++i)
        {
            gens.push_back(advanced<E>(rng));
            std::vector<T> adj(dims * bins);
            for (auto& x : adj) x = gen_value(rng);
            chk.add(hep::vegas_result<T>(gen_plain(rng, ndist), gen_pdf(rng, dims, bins), adj), gens.back());
        }
        round_trip<E>(chk, gens, J(info).u("dims", dims).u("bins", bins), "vegas", extreme);
    }
    else
    {
        typedef hep::multi_channel_chkpt_with_rng<E, T> C;
        std::size_t n = rng.range(1, 12);
        T beta = gen_value(rng), minw = T(rng.u01l() * 0.05L);
        std::vector<T> w(n);
        for (auto& x : w) x = rng.below(4) ? T(rng.u01l() + 0.01L) : T();
        bool any = false;
        for (T x : w) any = any || x != T();
        if (!any) w[0] = T(1);
        bool user = rng.below(2);
        C chk = user ? C(gens[0], w, minw, T(0.25)) : C(gens[0], minw, beta);
        bool never_run = !user && nres == 0 && rng.below(2);
        if (!never_run) chk.channels(n); else count("default_checkpoints_never_run");
        for (std::size_t i = 0; i < nres; ++i)
        {
            gens.push_back(advanced<E>(rng));
            std::vector<T> adj(n), cw(n);
            for (auto& x : adj) x = gen_value(rng);
            for (auto& x : cw) x = gen_value(rng);
            chk.add(hep::multi_channel_result<T>(gen_plain(rng, ndist), adj, cw), gens.back());
        }
        round_trip<E>(chk, gens, J(info).u("channels", n), "multi_channel", extreme);
    }
}

} // namespace

#ifndef VF_ENGSET
#define VF_ENGSET 0
#endif

std::uint64_t vfh_num_cases(bool thorough) { return thorough ? 24000 : 400; }

void vfh_run_case(std::uint64_t idx, Rng& rng)
{
    switch (idx % 3)
    {
#if VF_ENGSET == 0
    case 0: engine_case<std::minstd_rand0>(rng, "minstd_rand0"); break;
    case 1: engine_case<std::minstd_rand>(rng, "minstd_rand"); break;
    default: engine_case<std::mt19937>(rng, "mt19937"); break;
#elif VF_ENGSET == 1
    case 0: engine_case<std::mt19937_64>(rng, "mt19937_64"); break;
    case 1: engine_case<std::ranlux24_base>(rng, "ranlux24_base"); break;
    default: engine_case<std::ranlux48_base>(rng, "ranlux48_base"); break;
#else
    case 0: engine_case<std::ranlux24>(rng, "ranlux24"); break;
    case 1: engine_case<std::ranlux48>(rng, "ranlux48"); break;
    default: engine_case<std::knuth_b>(rng, "knuth_b"); break;
#endif
    }
}

void vfh_selftest() {}
