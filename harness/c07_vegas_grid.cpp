// C07 - the VEGAS grid stays a valid partition and refinement equidistributes importance.
// (a) direct monitor on vegas_refine_pdf, (b) in-run monitor inside hep::vegas on peaked integrands,
// (c) scripted extreme canonical numbers + vegas_icdf(1.0), (d) all-zero iterations leave the grid alone,
// (e) mpi_vegas on the thread shim: every rank's next grid is the judged refinement of the reduced data, also when a rank saw only zeros.
#include "vf_main.hpp"
#include "ref.hpp"
#include "hep/mc-mpi.hpp"

typedef VF_T T;
using namespace vf;

namespace
{

std::vector<LD> grid_dim(hep::vegas_pdf<T> const& p, std::size_t dim)
{
    std::vector<LD> g(p.bins() + 1);
    for (std::size_t b = 0; b <= p.bins(); ++b) g[b] = p.bin_left(dim, b);
    return g;
}

std::vector<T> grid_vec(hep::vegas_pdf<T> const& p)
{
    std::vector<T> g;
    for (std::size_t d = 0; d < p.dimensions(); ++d)
        for (std::size_t b = 0; b <= p.bins(); ++b) g.push_back(p.bin_left(d, b));
    return g;
}

bool same_grid(hep::vegas_pdf<T> const& a, hep::vegas_pdf<T> const& b)
{
    if (a.bins() != b.bins() || a.dimensions() != b.dimensions()) return false;
    for (std::size_t d = 0; d < a.dimensions(); ++d)
        for (std::size_t i = 0; i <= a.bins(); ++i)
            if (!same_bits(a.bin_left(d, i), b.bin_left(d, i))) return false;
    return true;
}

// validity of every boundary; returns false if invalid (and reports)
bool check_valid(hep::vegas_pdf<T> const& p, char const* where, J const& ctxinfo)
{
    bool ok = true;
    for (std::size_t d = 0; d < p.dimensions(); ++d)
    {
        if (!(p.bin_left(d, 0) == T(0))) { viol("grid-invalid:first-boundary-not-0", J(ctxinfo).s("where", where).u("dim", d).f("x0", p.bin_left(d, 0))); ok = false; }
        if (!(p.bin_left(d, p.bins()) == T(1))) { viol("grid-invalid:last-boundary-not-1", J(ctxinfo).s("where", where).u("dim", d).f("xn", p.bin_left(d, p.bins()))); ok = false; }
        for (std::size_t b = 0; b <= p.bins(); ++b)
        {
            T x = p.bin_left(d, b);
            if (!std::isfinite(x)) { viol("grid-invalid:non-finite-boundary", J(ctxinfo).s("where", where).u("dim", d).u("bin", b).f("x", x)); ok = false; break; }
            if (b > 0 && x < p.bin_left(d, b - 1))
            {
                viol("grid-invalid:decreasing-boundary", J(ctxinfo).s("where", where).u("dim", d).u("bin", b).f("x", x).f("prev", p.bin_left(d, b - 1)));
                ok = false;
                break;
            }
        }
    }
    count("grids_validated");
    return ok;
}

// ---- generators --------------------------------------------------------------------------------
hep::vegas_pdf<T> make_grid(Rng& rng, std::size_t dims, std::size_t bins, std::string& kind)
{
    hep::vegas_pdf<T> p(dims, bins);
    unsigned k = rng.below(5);
    if (k == 0) { kind = "uniform"; return p; }
    kind = k == 1 ? "random" : k == 2 ? "narrow-peak" : k == 3 ? "zero-width-bins" : "random";
    for (std::size_t d = 0; d < dims; ++d)
    {
        std::vector<T> x(bins + 1);
        for (auto& v : x) v = T(rng.u01l());
        if (k == 2)
        {
            T c = T(rng.u01l());
            T wdt = std::ldexp(T(1), -int(rng.range(4, std::numeric_limits<T>::digits - 4)));
            for (std::size_t i = 1; i + 1 < x.size(); ++i) if (rng.below(4)) x[i] = std::fmin(T(1), std::fmax(T(0), c + wdt * (T(rng.u01l()) - T(0.5))));
        }
        if (k == 3) for (std::size_t i = 1; i + 1 < x.size(); ++i) if (rng.below(3) == 0) x[i] = x[i - 1];
        x[0] = T(0);
        x[bins] = T(1);
        std::sort(x.begin(), x.end());
        for (std::size_t b = 0; b <= bins; ++b) p.set_bin_left(d, b, x[b]);
    }
    return p;
}

// data for one dimension; scale limits keep every smoothed share a normal number of T (see DESIGN C07)
std::vector<T> make_data_dim(Rng& rng, std::size_t bins, std::string& kind, bool& constant)
{
    std::vector<T> d(bins, T());
    int const span = std::is_same<T, float>::value ? 40 : 400;   // binary exponent half-range
    constant = false;
    switch (rng.below(10))
    {
    case 9: kind = "single-occupied-smoothed-bin";   // smoothing underflows everywhere but in one bin (r == 1)
        if (bins >= 3) { std::size_t k = rng.range(1, bins - 2); d[k - 1] = std::numeric_limits<T>::denorm_min(); d[k + 1] = d[k - 1]; }
        else d[0] = T(1);
        break;
    case 8: kind = "subnormal"; { T s = std::numeric_limits<T>::denorm_min(); for (auto& x : d) x = s * T(rng.below(60)); if (std::all_of(d.begin(), d.end(), [](T v) { return v == T(); })) d[0] = s; } break;
    case 0: kind = "one-nonzero-bin"; d[rng.below(bins)] = std::ldexp(T(1) + T(rng.u01l()), int(rng.below(2 * span)) - span); break;
    case 1: kind = "two-spikes"; d[rng.below(bins)] = T(1) + T(rng.u01l()); d[rng.below(bins)] = std::ldexp(T(1), int(rng.below(40)) - 20); break;
    case 2: { kind = "geometric"; T f = std::ldexp(T(1), int(rng.below(2 * span)) - span); LD q = std::exp2((LD)(2.0 * span - 20) / bins * (rng.coin() ? 1 : -1) * rng.u01l());
              LD v = f; LD lim = std::ldexp(1.0L, span); for (auto& x : d) { x = T(v); v *= q; if (v > lim) v = lim; if (v < 1 / lim) v = 1 / lim; } break; }
    case 3: kind = "denormal-scale"; { T s = std::numeric_limits<T>::min(); for (auto& x : d) x = s * T(1 + rng.below(1000)); } break;
    case 4: kind = "constant"; constant = true; { T v = std::ldexp(T(1), int(rng.below(60)) - 30); for (auto& x : d) x = v; } break;
    case 5: kind = "sparse"; for (auto& x : d) if (rng.below(4) == 0) x = T(rng.u01l()); if (std::all_of(d.begin(), d.end(), [](T v) { return v == T(); })) d[0] = T(1); break;
    default: kind = "random"; for (auto& x : d) x = T(rng.u01l()) * T(rng.u01l()); if (std::all_of(d.begin(), d.end(), [](T v) { return v == T(); })) d[0] = T(1); break;
    }
    return d;
}

// ---- (a) direct monitor ------------------------------------------------------------------------
void judge_refinement(hep::vegas_pdf<T> const& old_pdf, T alpha, std::vector<T> const& data, hep::vegas_pdf<T> const& np,
    J const& info, bool& judged_equi)
{
    std::size_t bins = old_pdf.bins(), dims = old_pdf.dimensions();
    judged_equi = false;
    if (np.bins() != bins || np.dimensions() != dims) { viol("refine-changed-shape", info); return; }
    if (!check_valid(np, "vegas_refine_pdf", info)) return;
    bool all_dims_zero = std::all_of(data.begin(), data.end(), [](T v) { return v == T(); });
    if (all_dims_zero)
    {
        count("all_zero_refinements");
        if (!same_grid(old_pdf, np)) viol("zero-data-changed-grid", J(info).fv("old", grid_vec(old_pdf)).fv("new", grid_vec(np)));
        return;
    }
    for (std::size_t d = 0; d < dims; ++d)
    {
        std::vector<LD> dd(bins);
        for (std::size_t b = 0; b < bins; ++b) dd[b] = data[d * bins + b];
        bool zero;
        std::vector<LD> imp = vegas_importance(dd, alpha, zero);
        if (zero)
        {
            // a dimension without information keeps its bins (the all-zero clause, per dimension)
            count("dims_without_information_checked_unchanged");
            for (std::size_t b = 0; b <= bins; ++b)
                if (!same_bits(old_pdf.bin_left(d, b), np.bin_left(d, b))) { viol("zero-data-changed-grid:single-dimension", J(info).u("dim", d).u("boundary", b)); break; }
            continue;
        }
        if (vegas_min_share(dd) < (LD)std::numeric_limits<T>::min() * 64) { count("dims_underflow_prone_unjudged"); continue; }
        {
            LD sum = 0;
            for (LD x : dd) sum += x;
            if (sum < (LD)std::numeric_limits<T>::min() * 1024) { count("dims_subnormal_data_validity_only"); continue; }
        }
        LD total = 0, maxd = 0;
        for (LD x : imp) total += x;
        std::vector<LD> og = grid_dim(old_pdf, d), ng = grid_dim(np, d);
        judged_equi = true;
        for (std::size_t k = 1; k < bins; ++k)
        {
            LD lo, hi, dens;
            vegas_cdf(og, imp, ng[k], lo, hi, dens);
            LD target = total * k / bins;
            // the boundary is interpolated as right_edge - width * fraction: its absolute error is a few eps of the right
            // edge of the old bin (at most 1), which the local density turns into a mass error
            LD tol = 16 * (bins + 8) * eps<T>() * total * (1 + (LD)alpha) + 8 * eps<T>() * dens;
            (void)maxd;
            count("equi_boundaries_checked");
            if (target < lo - tol || target > hi + tol)
            {
                viol("equidistribution", J(info).u("dim", d).u("new_boundary", k).f("x", ng[k]).f("mass_left_lo", lo).f("mass_left_hi", hi)
                    .f("target", target).f("tol", tol).fv("imp", imp).fv("old_grid", og).fv("new_grid", ng));
                break;
            }
        }
    }
}

void direct(Rng& rng)
{
    static const std::size_t bin_choices[] = {2, 2, 3, 3, 4, 5, 8, 16, 17, 32, 64, 128, 256};
    std::size_t bins = bin_choices[rng.below(sizeof bin_choices / sizeof bin_choices[0])];
    if (!ctx().thorough && bins > 64 && rng.below(2)) bins = 8;
    std::size_t dims = rng.range(1, 4);
    static const long double alphas[] = {0, 0.5, 1, 1.5, 3};
    T alpha = rng.below(3) ? T(alphas[rng.below(5)]) : T(3 * rng.u01l());
    std::string gkind;
    hep::vegas_pdf<T> pdf = make_grid(rng, dims, bins, gkind);
    std::size_t chain = rng.below(4) == 0 ? rng.range(2, ctx().thorough ? 50 : 12) : 1;
    for (std::size_t step = 0; step < chain; ++step)
    {
        std::vector<T> data;
        std::string dk, kinds;
        bool all_const = true;
        bool zero_iter = rng.below(12) == 0;
        for (std::size_t d = 0; d < dims; ++d)
        {
            bool constant;
            // besides whole all-zero iterations: single dimensions without any information next to dimensions with data
            bool zero_dim = zero_iter || (dims >= 2 && rng.below(8) == 0);
            std::vector<T> dd = zero_dim ? std::vector<T>(bins, T()) : make_data_dim(rng, bins, dk, constant);
            if (zero_dim) { dk = "all-zero"; constant = true; }
            all_const = all_const && constant;
            kinds += (d ? "," : "") + dk;
            data.insert(data.end(), dd.begin(), dd.end());
        }
        J info;
        info.s("T", tname<T>::get()).u("bins", bins).u("dims", dims).f("alpha", alpha).s("grid", gkind).s("data", kinds).u("step", step);
        breadcrumb() = J(info).fv("data_values", data, 600).fv("old_grid", grid_vec(pdf), 600).str();
        hep::vegas_pdf<T> np = hep::vegas_refine_pdf(pdf, alpha, data);
        bool judged;
        judge_refinement(pdf, alpha, data, np, J(info).fv("data_values", data, 24), judged);
        ++ctx().evaluations;
        count("refinements");
        std::uint64_t sig = mix(hash_str(tname<T>::get()), bins * 131 + dims);
        for (T x : grid_vec(pdf)) sig = mix(sig, bits_hash(x));
        for (T x : data) sig = mix(sig, bits_hash(x));
        bool nonuniform = !same_grid(pdf, hep::vegas_pdf<T>(dims, bins));
        if (nonuniform && !all_const && judged) nontrivial(sig);
        if (step == 0) sample(J(info).fv("data_values", data, 12).fv("old_grid", grid_vec(pdf), 12).fv("new_grid", grid_vec(np), 12));
        pdf = np;
        gkind = "refined";
    }
}

// ---- (b),(c),(d) in-run monitors ---------------------------------------------------------------
struct CallRec { std::vector<T> x; std::vector<std::size_t> bin; T w; bool nz; };

struct RunState
{
    std::vector<CallRec> log;
    std::size_t iteration = 0;
    std::size_t zero_iteration = ~std::size_t(0);
    int shape = 0;
    T width = T(0.01);
    T centre = T(0.5);
};
thread_local RunState* g_run = 0;

T run_f(hep::vegas_point<T> const& p)
{
    RunState& r = *g_run;
    CallRec c;
    c.x = p.point();
    c.bin = p.bin();
    c.w = p.weight();
    c.nz = false;
    r.log.push_back(c);
    if (r.iteration == r.zero_iteration) return T();
    T v = T(1);
    for (std::size_t i = 0; i < c.x.size(); ++i)
    {
        T x = c.x[i];
        switch (r.shape)
        {
        case 0: { T z = (x - r.centre) / r.width; v *= std::exp(-z * z); break; }            // gaussian peak
        case 1: v *= T(1) / (x + r.width); break;                                              // 1/(x+eps)
        case 2: if (i == 0) { T z = (x - r.centre) / r.width; v *= T(1) / (T(1) + z * z); } break;  // spike in one dimension only
        case 4: v *= (std::fabs(x - r.centre) < r.width) ? T(1) + x : T(0); break;                  // box: exactly zero outside a small support
        default: v *= (x < r.centre ? T(0) : T(1)) + T(1e-3); break;                            // step
        }
    }
    r.log.back().nz = v != T();
    return v;
}

void judge_calls(hep::vegas_pdf<T> const& pdf, std::vector<CallRec> const& log, J const& info)
{
    std::size_t bins = pdf.bins();
    for (auto const& c : log)
    {
        count("calls_checked");
        LD wref = 1;
        for (std::size_t i = 0; i < c.x.size(); ++i)
        {
            if (c.bin[i] >= bins) { viol("bin-index-out-of-range", J(info).u("bin", c.bin[i]).u("bins", bins)); goto next; }
            T l = pdf.bin_left(i, c.bin[i]), rr = pdf.bin_left(i, c.bin[i] + 1);
            if (!(c.x[i] >= T(0) && c.x[i] <= T(1))) viol("point-outside-unit-interval", J(info).f("x", c.x[i]));
            // one rounding error of slack on the interpolation l + t*(r-l)
            T slack = T(2) * std::numeric_limits<T>::epsilon() * std::fmax(std::fabs(l), std::fabs(rr));
            // x = left + t * width with t in [0,1): exactly never left of the bin; one rounding error of slack on the right
            if (!(c.x[i] >= l && c.x[i] <= rr + slack))
                viol("point-outside-bin", J(info).u("dim", i).u("bin", c.bin[i]).f("x", c.x[i]).f("left", l).f("right", rr));
            wref *= (LD)bins * ((LD)rr - (LD)l);
        }
        if (!close_rel<T>(c.w, wref, 4 * (c.x.size() + 1)))
            viol("weight-mismatch", J(info).f("weight", c.w).f("expected", wref).uv("bin", c.bin));
    next:;
    }
}

// the grid proposed for the next iteration is the (judged) refinement of the grid just used with the adjustment data just reported
void judge_next(hep::vegas_pdf<T> const& used, T alpha, std::vector<T> const& data, hep::vegas_pdf<T> const& next, J const& info, char const* what)
{
    bool judged = false;
    std::uint64_t before = ctx().violations;
    judge_refinement(used, alpha, data, next, J(info).s("where", what).fv("data_values", data, 24), judged);
    (void)before;
    if (judged) count("in_run_next_grids_judged_for_equidistribution");
}

template <typename Chk> struct RunCallback
{
    RunState* r;
    J info;
    bool operator()(Chk const& chk)
    {
        auto const& res = chk.results().back();
        hep::vegas_pdf<T> const& pdf = res.pdf();
        check_valid(pdf, "results().back().pdf()", info);
        judge_calls(pdf, r->log, info);
        hep::vegas_pdf<T> next = chk.pdf();
        check_valid(next, "chkpt.pdf()", info);
        if (r->iteration == r->zero_iteration)
        {
            count("zero_iterations");
            if (res.non_zero_calls() != 0) viol("harness:zero-iteration-not-zero", info);
            if (!same_grid(next, pdf)) viol("zero-iteration-changed-grid", J(info).fv("used", grid_vec(pdf), 20).fv("next", grid_vec(next), 20));
        }
        else judge_next(pdf, chk.alpha(), res.adjustment_data(), next, info, "serial-run");
        r->log.clear();
        ++r->iteration;
        return true;
    }
};

// ---- (e) mpi_vegas on the shim: per-rank snapshots, judged after the ranks have joined ---------
struct IterSnap { std::vector<T> used, next, data; std::size_t nz_reduced; std::size_t own_calls, own_nonzero; std::vector<CallRec> log; };

struct MpiRunCallback
{
    RunState* r;
    std::vector<IterSnap>* out;
    bool operator()(MPI_Comm, hep::vegas_chkpt_with_rng<std::mt19937, T> const& chk)
    {
        auto const& res = chk.results().back();
        IterSnap s;
        s.used = grid_vec(res.pdf());
        s.next = grid_vec(chk.pdf());
        s.data = res.adjustment_data();
        s.nz_reduced = res.non_zero_calls();
        s.own_calls = r->log.size();
        s.own_nonzero = 0;
        for (auto const& c : r->log) if (c.nz) ++s.own_nonzero;
        s.log.swap(r->log);
        out->push_back(s);
        ++r->iteration;
        return true;
    }
};

hep::vegas_pdf<T> pdf_of(std::vector<T> const& g, std::size_t dims, std::size_t bins)
{
    hep::vegas_pdf<T> p(dims, bins);
    for (std::size_t d = 0; d < dims; ++d) for (std::size_t b = 0; b <= bins; ++b) p.set_bin_left(d, b, g[d * (bins + 1) + b]);
    return p;
}

void in_run_mpi(Rng& rng)
{
    static const std::size_t bin_choices[] = {2, 3, 5, 8, 16};
    std::size_t bins = bin_choices[rng.below(5)];
    std::size_t dims = rng.range(1, 2);
    int P = int(rng.range(2, 5));
    T alpha = rng.below(2) ? T(1.5) : rng.below(4) == 0 ? T(0) : T(3 * rng.u01l());
    int shape = rng.below(3) ? 4 : int(rng.below(4));
    T width = shape == 4 ? T(0.03L + 0.25L * rng.u01l()) : std::ldexp(T(1), -int(rng.range(2, 8)));
    T centre = T(rng.u01l());
    std::size_t iters = rng.range(3, 7);
    std::vector<std::size_t> calls;
    // short iterations: fewer calls than ranks (the last ranks get none), or so few that some rank sees only zeros
    for (std::size_t i = 0; i < iters; ++i) calls.push_back(rng.below(2) ? rng.range(1, 3 * P) : rng.range(20, 400));
    unsigned eseed = (unsigned)rng.next();
    std::uint64_t wseed = rng.next();
    J info;
    info.s("T", tname<T>::get()).u("bins", bins).u("dims", dims).f("alpha", alpha).i("shape", shape).f("width", width).f("centre", centre)
        .uv("calls", calls).i("ranks", P).s("kind", "mpi_vegas");
    std::vector<std::vector<IterSnap>> out(P);
    VfWorld world;
    vf_mpi_run(world, P, wseed, [&](int rank, MPI_Comm comm) {
        RunState r;
        r.shape = shape; r.width = width; r.centre = centre;
        g_run = &r;
        std::mt19937 eng(eseed);
        hep::vegas_chkpt_with_rng<std::mt19937, T> chk(eng, bins, alpha);
        MpiRunCallback cb = {&r, &out[rank]};
        hep::mpi_vegas(comm, hep::make_integrand<T>(run_f, dims), calls, chk, cb);
        g_run = 0;
    });
    ++ctx().evaluations;
    count("mpi_vegas_runs");
    if (world.aborted) { viol("mpi-run-aborted", J(info).s("reason", world.abort_reason)); return; }
    bool starved_rank = false;
    for (int rank = 0; rank < P; ++rank)
    {
        J ri = J(info).i("rank", rank);
        if (out[rank].size() != iters) { viol("harness:callback-count", J(ri).u("seen", out[rank].size())); return; }
        for (std::size_t k = 0; k < iters; ++k)
        {
            IterSnap const& s = out[rank][k];
            J ki = J(ri).u("iteration", k);
            hep::vegas_pdf<T> used = pdf_of(s.used, dims, bins), next = pdf_of(s.next, dims, bins);
            check_valid(used, "results().back().pdf()", ki);
            judge_calls(used, s.log, ki);
            if (s.used != out[0][k].used || s.next != out[0][k].next)
            {
                viol("mpi-ranks-hold-different-grids", J(ki).fv("rank0_next", out[0][k].next, 20).fv("this_next", s.next, 20));
                return;
            }
            count("mpi_rank_iterations_checked");
            if (s.nz_reduced == 0)
            {
                count("zero_iterations_mpi");
                if (!same_grid(next, used)) { viol("zero-iteration-changed-grid", J(ki).fv("used", s.used, 20).fv("next", s.next, 20)); return; }
            }
            else
            {
                if (s.own_nonzero == 0) { starved_rank = true; count("mpi_rank_iterations_with_only_zeros_while_others_non-zero"); }
                std::uint64_t before = ctx().violations;
                judge_next(used, alpha, s.data, next, ki, "mpi-run");
                if (ctx().violations != before) return;
            }
        }
    }
    if (starved_rank) nontrivial(mix(hash_str(info.str()), 11));
    sample(J(info).s("kind", "mpi-in-run"), 3);
}

void in_run(Rng& rng, bool scripted)
{
    static const std::size_t bin_choices[] = {2, 3, 5, 8, 16, 32, 128, 37, 100};
    std::size_t bins = bin_choices[rng.below(9)];
    std::size_t dims = rng.range(1, 3);
    T alpha = rng.below(2) ? T(1.5) : rng.below(4) == 0 ? T(0) : T(3 * rng.u01l());
    RunState r;
    r.shape = rng.below(5);
    r.width = std::ldexp(T(1), -int(rng.range(2, 13)));
    if (r.shape == 4) r.width = T(0.03L + 0.25L * rng.u01l());
    r.centre = T(rng.u01l());
    std::size_t iters = scripted ? 3 : rng.range(2, ctx().thorough ? 30 : 8);
    std::size_t calls = scripted ? 0 : rng.range(200, 2000);
    if (!scripted && rng.below(2)) r.zero_iteration = rng.range(1, iters - 1);
    J info;
    info.s("T", tname<T>::get()).u("bins", bins).u("dims", dims).f("alpha", alpha).i("shape", r.shape).f("width", r.width)
        .f("centre", r.centre).u("iterations", iters).b("scripted", scripted).i("zero_iteration", r.zero_iteration == ~std::size_t(0) ? -1 : (long long)r.zero_iteration);
    g_run = &r;
    if (scripted)
    {
        // extremes and bin-boundary canonical numbers in every coordinate
        std::vector<std::uint64_t> us = {0, 1, 2, ~std::uint64_t(0), ~std::uint64_t(0) - 1, ~std::uint64_t(0) - (std::uint64_t(1) << 41)};
        for (std::size_t k = 1; k < bins; ++k)
        {
            T b = T(k) / T(bins);
            T vals[3] = {b, std::nextafter(b, T(0)), std::nextafter(b, T(1))};
            for (T v : vals) us.push_back(raw_of(v));
            us.push_back(raw_of((LD)k / bins));
            us.push_back(raw_of((LD)k / bins) - 1);
        }
        for (int k = 0; k < 16; ++k) us.push_back(rng.next());
        auto script = std::make_shared<Script>();
        ScriptEngine::current() = script;
        calls = us.size() * (dims == 1 ? 1 : 3);
        for (std::size_t it = 0; it < iters; ++it)
            for (std::size_t c = 0; c < calls; ++c)
                for (std::size_t d = 0; d < dims; ++d)
                {
                    // every coordinate sees every value; other coordinates vary
                    std::uint64_t v = (c % dims == d || dims == 1) ? us[(c / (dims == 1 ? 1 : 3)) % us.size()] : us[rng.below(us.size())];
                    script->raw.push_back(v);
                    if (v == 0) count("scripted_u_zero");
                    if (v == ~std::uint64_t(0)) count("scripted_u_max");
                }
        typedef hep::vegas_chkpt_with_rng<ScriptEngine, T> chk_t;
        chk_t chk(ScriptEngine(script), bins, alpha);
        RunCallback<chk_t> cb = {&r, info};
        hep::vegas(hep::make_integrand<T>(run_f, dims), std::vector<std::size_t>(iters, calls), chk, cb);
        count("scripted_runs");
    }
    else
    {
        typedef hep::vegas_chkpt_with_rng<std::mt19937, T> chk_t;
        std::mt19937 eng((unsigned)rng.next());
        chk_t chk(eng, bins, alpha);
        RunCallback<chk_t> cb = {&r, info};
        hep::vegas(hep::make_integrand<T>(run_f, dims), std::vector<std::size_t>(iters, calls), chk, cb);
        count("adaptive_runs");
    }
    g_run = 0;
    if (r.iteration != iters) viol("harness:callback-count", J(info).u("seen", r.iteration));
    ++ctx().evaluations;
    nontrivial(mix(hash_str(info.str()), 7));
    sample(J(info).s("kind", "in-run"), 6);
}

void icdf_one(Rng& rng)
{
    // vegas_icdf called directly with a canonical number of exactly 1 (documented guard) and with 0
    std::size_t bins = rng.range(2, 128), dims = rng.below(2) ? rng.range(1, 3) : rng.range(9, 40);
    std::string gk;
    hep::vegas_pdf<T> pdf = make_grid(rng, dims, bins, gk);
    if (dims > 8) count("icdf_calls_in_more_than_8_dimensions");
    for (int which = 0; which < 3; ++which)
    {
        std::vector<T> u(dims);
        for (auto& v : u) v = T(rng.u01l());
        if (which < 2) u[rng.below(dims)] = which ? T(1) : T(0);
        std::vector<std::size_t> bin(dims, 12345);
        std::vector<T> x = u;
        T w = hep::vegas_icdf(pdf, x, bin);
        J info;
        info.s("T", tname<T>::get()).u("bins", bins).fv("u", u).fv("x", x).uv("bin", bin).f("w", w);
        count("icdf_extreme_calls");
        LD wref = 1;
        for (std::size_t i = 0; i < dims; ++i)
        {
            if (bin[i] >= bins) { viol(which == 1 ? "bin-index-out-of-range:u=1" : "bin-index-out-of-range:u=0", info); return; }
            T l = pdf.bin_left(i, bin[i]), r = pdf.bin_left(i, bin[i] + 1);
            T slack = T(2) * std::numeric_limits<T>::epsilon() * std::fmax(std::fabs(l), std::fabs(r));
            if (!(x[i] >= l && x[i] <= r + slack)) viol("point-outside-bin", info);
            wref *= (LD)bins * ((LD)r - (LD)l);
        }
        // a weight outside the range of T is legitimately 0 / denormal / inf: not judged
        if (!(wref < (LD)std::numeric_limits<T>::max() / 4) || !(wref > (LD)std::numeric_limits<T>::min() * 4)) { count("weights_out_of_range_unjudged"); continue; }
        if (!close_rel<T>(w, wref, 8 * (dims + 1))) viol("weight-mismatch", J(info).f("expected", wref));
    }
    ++ctx().evaluations;
}

} // namespace

std::uint64_t vfh_num_cases(bool thorough) { return thorough ? 400000 : 7000; }

void vfh_run_case(std::uint64_t idx, Rng& rng)
{
    std::uint64_t m = idx % 100;
    if (m == 97) in_run(rng, false);
    else if (m == 95 || m == 94) in_run_mpi(rng);
    else if (m == 98) in_run(rng, true);
    else if (m == 99 || m == 96) icdf_one(rng);
    else direct(rng);
}

void vfh_selftest()
{
    auto script = std::make_shared<Script>();
    std::uint64_t raws[] = {0, 1, ~std::uint64_t(0), std::uint64_t(1) << 63, 0x123456789abcdef0ULL};
    for (auto r : raws) script->raw.push_back(r);
    ScriptEngine e(script);
    for (auto r : raws)
    {
        T got = std::generate_canonical<T, std::numeric_limits<T>::digits>(e);
        if (!same_bits(got, canon<T>(r))) inconclusive("ScriptEngine self-test failed");
    }
    // reference self-check: uniform grid + constant data => equidistributed boundaries k/bins
    std::vector<LD> g = {0, 0.25L, 0.5L, 0.75L, 1}, imp = {1, 1, 1, 1};
    LD lo, hi, dens;
    vegas_cdf(g, imp, 0.5L, lo, hi, dens);
    if (lo != 2 || hi != 2) inconclusive("reference cdf self-check failed");
}
