// Recording integrand, channel map and callback (DESIGN 3.3).  They only observe: every event is appended
// to a Log that the monitors judge online (per call) or offline (per iteration).
#ifndef VF_REC_HPP
#define VF_REC_HPP

#include "vf.hpp"
#include "hep/mc.hpp"

#include <functional>

namespace vf
{

template <typename T> struct AddEv
{
    std::size_t index;
    bool two_d;
    T x, y, value;
};

template <typename T> struct CallEv
{
    int kind;                          // 0 PLAIN, 1 VEGAS, 2 multi channel
    std::vector<T> point;              // p.point()
    std::vector<std::size_t> bin;      // VEGAS
    std::size_t channel;               // multi channel
    std::vector<T> coords;             // multi channel
    T value;                           // what the integrand returned
    bool asked_weight;                 // the integrand itself requested p.weight() (directly or through projector.add)
    T weight;                          // the weight it saw (if asked, or if it is free of side effects: PLAIN/VEGAS)
    std::vector<AddEv<T>> adds;
    std::uint64_t draws;               // raw draws of the counting engine so far (thread local log)
    std::uint64_t ordinal;
};

template <typename T> struct MapEv
{
    bool densities_action;
    std::size_t channel;
    void const* rn_addr;
    void const* co_addr;
    void const* de_addr;
    std::uint64_t rn_hash_in, co_hash_in, de_hash_in;      // buffer contents at entry
    std::uint64_t co_hash_out, de_hash_out;                // buffer contents at exit
    std::vector<T> rn, co_out, dens_out;
    std::vector<std::size_t> enabled;
    T jacobian;
};

enum EvType { EV_MAP_COORD = 0, EV_INT_BEGIN = 1, EV_MAP_DENS = 2, EV_INT_END = 3 };

struct SeqEv { int type; std::size_t idx; };

template <typename T> struct Log
{
    std::vector<SeqEv> seq;
    std::vector<CallEv<T>> calls;
    std::vector<MapEv<T>> maps;
    void clear() { seq.clear(); calls.clear(); maps.clear(); }
};

template <typename T> inline std::uint64_t hash_vec(std::vector<T> const& v)
{
    std::uint64_t h = mix(v.size(), 99);
    for (T x : v) h = mix(h, bits_hash(x));
    return h;
}

// what the value function may do besides looking at the point
template <typename T> struct Access
{
    hep::mc_point<T> const* p;
    hep::projector<T>* proj;
    CallEv<T>* ev;
    T weight() { ev->asked_weight = true; ev->weight = p->weight(); return ev->weight; }
    bool has_projector() const { return proj != 0; }
    void add(std::size_t index, T x, T value)
    {
        AddEv<T> a = {index, false, x, T(), value};
        ev->adds.push_back(a);
        ev->asked_weight = true;   // projector::add multiplies by point.weight()
        proj->add(index, x, value);
    }
    void add(std::size_t index, T x, T y, T value)
    {
        AddEv<T> a = {index, true, x, y, value};
        ev->adds.push_back(a);
        ev->asked_weight = true;
        proj->add(index, x, y, value);
    }
};

template <typename T> inline void extract(hep::vegas_point<T> const& p, CallEv<T>& e)
{
    e.kind = 1;
    e.bin = p.bin();
    e.weight = p.weight();     // precomputed, no side effect
}
template <typename T> inline void extract(hep::multi_channel_point<T> const& p, CallEv<T>& e)
{
    e.kind = 2;
    e.channel = p.channel();
    e.coords = p.coordinates();
}
template <typename T> inline void extract(hep::mc_point<T> const& p, CallEv<T>& e)
{
    e.kind = 0;
    e.weight = p.weight();     // constant 1, no side effect
}

template <typename T> struct RecIntegrand
{
    Log<T>* log;
    std::function<T(CallEv<T>&, Access<T>&)> fn;

    template <typename P> T operator()(P const& p) { return call(p, 0); }
    template <typename P> T operator()(P const& p, hep::projector<T>& pr) { return call(p, &pr); }

    template <typename P> T call(P const& p, hep::projector<T>* pr)
    {
        log->calls.push_back(CallEv<T>());
        std::size_t idx = log->calls.size() - 1;
        {
            CallEv<T>& e = log->calls[idx];
            e.ordinal = idx;
            e.channel = 0;
            e.asked_weight = false;
            e.weight = T();
            e.point = p.point();
            e.draws = drawlog().draws;
            extract(p, e);
        }
        SeqEv b = {EV_INT_BEGIN, idx};
        log->seq.push_back(b);
        Access<T> acc = {&p, pr, &log->calls[idx]};
        T v = fn(log->calls[idx], acc);
        log->calls[idx].value = v;
        SeqEv en = {EV_INT_END, idx};
        log->seq.push_back(en);
        return v;
    }
};

template <typename T, typename M> struct RecMap
{
    Log<T>* log;
    M inner;
    T operator()(std::size_t channel, std::vector<T> const& rn, std::vector<T>& co, std::vector<std::size_t> const& enabled,
        std::vector<T>& dens, hep::multi_channel_map action)
    {
        MapEv<T> e;
        e.densities_action = action == hep::multi_channel_map::calculate_densities;
        e.channel = channel;
        e.rn_addr = &rn; e.co_addr = &co; e.de_addr = &dens;
        e.rn_hash_in = hash_vec(rn); e.co_hash_in = hash_vec(co); e.de_hash_in = hash_vec(dens);
        e.rn = rn;
        e.enabled = enabled;
        T j = inner(channel, rn, co, enabled, dens, action);
        e.co_hash_out = hash_vec(co); e.de_hash_out = hash_vec(dens);
        e.co_out = co; e.dens_out = dens;
        e.jacobian = j;
        log->maps.push_back(e);
        SeqEv s = {e.densities_action ? EV_MAP_DENS : EV_MAP_COORD, log->maps.size() - 1};
        log->seq.push_back(s);
        return j;
    }
};

// deterministic per-point hash (pure function of the sampled point), used to pick value classes
template <typename T> inline std::uint64_t point_hash(std::vector<T> const& p, std::uint64_t salt)
{
    std::uint64_t h = salt;
    for (T x : p) h = mix(h, bits_hash(x));
    return h;
}

// plain serial callback that never stops
struct GoOnSerial
{
    template <typename C> bool operator()(C const&) const { return true; }
};

} // namespace vf

#endif
