// C09 - channel selection follows the weights exactly and never picks a disabled channel.
// Monitor: hep::discrete_distribution<size_t,T> and point.channel() inside hep::multi_channel, both fed
// by the ScriptEngine so that the harness decides every canonical number (0, 2^-64, every cumulative
// boundary and its neighbours, the largest value below 1).  Oracle: interval rule on long double
// cumulative sums written from the property text.
#include "vf_main.hpp"
#include "hep/mc.hpp"

typedef VF_T T;
using namespace vf;

namespace
{

struct Case
{
    std::vector<T> w;
    std::string family;
    bool has_zero, lead_zero, trail_zero;
};

Case make_weights(Rng& rng, std::uint64_t idx)
{
    Case c;
    static const std::size_t lens[] = {1, 2, 2, 3, 3, 4, 5, 7, 8, 13, 16, 31, 64};
    std::size_t n = (idx % 5 == 0) ? rng.range(1, 64) : lens[rng.below(sizeof lens / sizeof lens[0])];
    c.w.resize(n);
    switch (rng.below(8))
    {
    case 6: c.family = "subnormal"; for (auto& x : c.w) x = std::numeric_limits<T>::denorm_min() * T(rng.range(1, 9)); break;
    case 7: c.family = "near-overflow"; for (auto& x : c.w) x = std::ldexp(T(rng.range(1, 9)), std::numeric_limits<T>::max_exponent - 12); break;
    case 0: c.family = "small-int"; for (auto& x : c.w) x = T(rng.range(1, 9)); break;
    case 1: c.family = "dyadic"; for (auto& x : c.w) x = std::ldexp(T(1), -int(rng.below(12))); break;
    case 2: c.family = "random"; for (auto& x : c.w) x = T(rng.u01l()) + T(1e-3); break;
    case 3: c.family = "huge-ratio"; for (auto& x : c.w) x = std::ldexp(T(1 + rng.below(3)), int(rng.below(60)) - 30); break;
    case 4: c.family = "unnormalised-big"; for (auto& x : c.w) x = T(rng.range(1, 1000)) * T(1e6); break;
    default: c.family = "equal"; for (auto& x : c.w) x = T(0.25); break;
    }
    // zero patterns
    unsigned zp = rng.below(8);
    if (n >= 2)
    {
        if (zp & 1) { std::size_t k = rng.range(1, std::min<std::size_t>(3, n - 1)); for (std::size_t i = 0; i < k; ++i) c.w[i] = T(); }
        if (zp & 2) { std::size_t k = rng.range(1, std::min<std::size_t>(3, n - 1)); for (std::size_t i = 0; i < k; ++i) c.w[n - 1 - i] = T(); }
        if ((zp & 4) && n >= 3) { std::size_t a = rng.range(1, n - 2); std::size_t k = rng.range(1, 3); for (std::size_t i = a; i < a + k && i < n - 1; ++i) c.w[i] = T(); }
    }
    bool any = false;
    for (auto x : c.w) any = any || x != T();
    if (!any) c.w[rng.below(n)] = T(1);
    c.has_zero = false;
    for (auto x : c.w) c.has_zero = c.has_zero || x == T();
    c.lead_zero = c.w.front() == T();
    c.trail_zero = c.w.back() == T();
    return c;
}

// reference: cumulative normalised weights in long double
std::vector<long double> cumulative(std::vector<T> const& w)
{
    long double s = 0;
    for (auto x : w) s += (long double)x;
    std::vector<long double> c(w.size());
    long double a = 0;
    for (std::size_t i = 0; i < w.size(); ++i) { a += (long double)w[i]; c[i] = a / s; }
    c.back() = 1.0L;
    return c;
}

const char* uclass_of(std::uint64_t raw, bool boundary)
{
    if (raw == 0) return "u=0";
    if (raw == ~std::uint64_t(0)) return "u=max";
    if (boundary) return "u=boundary";
    return "u=other";
}

struct U { std::uint64_t raw; bool boundary; };

std::vector<U> make_us(Rng& rng, std::vector<long double> const& cum)
{
    std::vector<U> us;
    us.push_back({0, false});
    us.push_back({1, false});
    us.push_back({2, false});
    us.push_back({~std::uint64_t(0), false});
    us.push_back({~std::uint64_t(0) - 1, false});
    us.push_back({~std::uint64_t(0) - (std::uint64_t(1) << 40), false});
    for (std::size_t i = 0; i < cum.size(); ++i)
    {
        // neighbours of the boundary: +-1,2 ulp of T and +-1,2 raw steps
        T b = T(cum[i]);
        T vals[5] = {b, std::nextafter(b, T(0)), std::nextafter(std::nextafter(b, T(0)), T(0)),
                     std::nextafter(b, T(2)), std::nextafter(std::nextafter(b, T(2)), T(2))};
        for (T v : vals)
        {
            if (v < T(0) || v >= T(1)) continue;
            us.push_back({raw_of((long double)v), true});
        }
        std::uint64_t r = raw_of(cum[i]);
        for (int d = -2; d <= 2; ++d) us.push_back({r + std::uint64_t(d), true});
    }
    for (int k = 0; k < 24; ++k) us.push_back({rng.next(), false});
    return us;
}

void judge(Case const& c, std::vector<long double> const& cum, std::uint64_t raw, bool boundary, std::size_t idx,
    char const* where)
{
    std::size_t n = c.w.size();
    T u = canon<T>(raw);
    count("selections");
    if (raw == 0) count("u_zero");
    if (raw == ~std::uint64_t(0)) count("u_max");
    if (boundary) count("u_boundary");
    J d;
    d.s("where", where).s("T", tname<T>::get()).s("family", c.family).fv("weights", c.w).f("u", u).u("raw", raw).u("selected", idx);
    if (idx >= n)
    {
        viol(std::string("index-out-of-range:") + uclass_of(raw, boundary), d);
        return;
    }
    if (c.w[idx] == T())
    {
        count("disabled_selected");
        viol(std::string("disabled-channel-selected:") + uclass_of(raw, boundary) + (c.lead_zero && idx == 0 ? ":leading-zero-weight" : ""), d);
        return;
    }
    long double lo = idx == 0 ? 0.0L : cum[idx - 1];
    long double hi = cum[idx];
    long double tol = (n + 2) * eps<T>();
    if ((long double)u < lo - tol || (long double)u > hi + tol)
    {
        viol(std::string("wrong-interval:") + uclass_of(raw, boundary), d);
    }
}

// ---- (a) direct monitor -------------------------------------------------------------------------
void direct(Rng& rng, std::uint64_t idx)
{
    Case c = make_weights(rng, idx);
    std::vector<long double> cum = cumulative(c.w);
    std::vector<U> us = make_us(rng, cum);
    auto script = std::make_shared<Script>();
    for (auto const& u : us) script->raw.push_back(u.raw);
    ScriptEngine::current() = script;
    ScriptEngine eng(script);
    hep::discrete_distribution<std::size_t, T> dist(c.w.begin(), c.w.end());
    std::uint64_t sig = hash_str(tname<T>::get());
    for (auto x : c.w) sig = mix(sig, bits_hash(x));
    for (auto const& u : us)
    {
        std::uint64_t before = eng.position();
        std::size_t sel = dist(eng);
        if (eng.position() != before + 1)
        {
            viol("selector-draw-count", J().u("draws", eng.position() - before));
            eng = ScriptEngine(script);
            eng.discard(before + 1);
        }
        judge(c, cum, u.raw, u.boundary, sel, "discrete_distribution");
    }
    ++ctx().evaluations;
    if (c.has_zero) { nontrivial(sig); count("cases_with_zero_weight"); }
    if (c.lead_zero) count("cases_with_leading_zero");
    if (c.trail_zero) count("cases_with_trailing_zero");
    sample(J().s("kind", "direct").s("T", tname<T>::get()).s("family", c.family).fv("weights", c.w).u("selections", us.size()));
}

// ---- (b) frequencies on a midpoint lattice ------------------------------------------------------
void lattice(Rng& rng, std::uint64_t idx)
{
    Case c = make_weights(rng, idx);
    std::vector<long double> cum = cumulative(c.w);
    std::size_t const M = ctx().thorough ? (1u << 16) : (1u << 13);
    auto script = std::make_shared<Script>();
    script->raw.resize(M);
    for (std::size_t j = 0; j < M; ++j) script->raw[j] = raw_of((j + 0.5L) / M);
    ScriptEngine eng(script);
    hep::discrete_distribution<std::size_t, T> dist(c.w.begin(), c.w.end());
    std::vector<std::size_t> hits(c.w.size() + 1);
    for (std::size_t j = 0; j < M; ++j)
    {
        std::size_t sel = dist(eng);
        ++hits[std::min(sel, c.w.size())];
    }
    count("selections", M);
    for (std::size_t i = 0; i < c.w.size(); ++i)
    {
        long double alpha = cum[i] - (i ? cum[i - 1] : 0.0L);
        long double freq = (long double)hits[i] / M;
        // lattice discrepancy <= 2/M per interval end + accumulated rounding of the partial sums
        if (std::fabs(freq - alpha) > 2.0L / M + (c.w.size() + 2) * eps<T>())
        {
            viol("frequency", J().s("T", tname<T>::get()).s("family", c.family).fv("weights", c.w).u("channel", i)
                .f("expected", alpha).f("observed", freq).u("M", M));
        }
        if (c.w[i] == T() && hits[i] != 0)
        {
            viol("disabled-channel-selected:lattice", J().fv("weights", c.w).u("channel", i).u("hits", hits[i]));
        }
    }
    if (hits[c.w.size()]) viol("index-out-of-range:lattice", J().fv("weights", c.w).u("hits", hits[c.w.size()]));
    ++ctx().evaluations;
    count("lattice_cases");
    std::uint64_t sig = hash_str("lattice");
    for (auto x : c.w) sig = mix(sig, bits_hash(x));
    if (c.has_zero) nontrivial(sig);
}

// ---- (c) in-run monitor: point.channel() inside hep::multi_channel ------------------------------
struct InRun
{
    Case const* c;
    std::vector<long double> const* cum;
    std::vector<U> const* us;
    std::size_t call;
};
InRun* g_inrun = 0;

T in_run_f(hep::multi_channel_point<T> const& p)
{
    InRun& r = *g_inrun;
    U const& u = (*r.us)[r.call % r.us->size()];
    judge(*r.c, *r.cum, u.raw, u.boundary, p.channel(), "multi_channel point.channel()");
    ++r.call;
    return T(1);
}

T in_run_map(std::size_t, std::vector<T> const& rn, std::vector<T>& co, std::vector<std::size_t> const& en,
    std::vector<T>& dens, hep::multi_channel_map action)
{
    if (action == hep::multi_channel_map::calculate_densities)
    {
        for (std::size_t ch : en) dens[ch] = T(1);
        return T(1);
    }
    co[0] = rn[0];
    return T(1);
}

void in_run(Rng& rng, std::uint64_t idx)
{
    Case c = make_weights(rng, idx);
    // multi_channel normalises the user vector first: the reference uses the same (normalised) vector the
    // result records, so only the selection is judged here
    std::vector<U> us;
    auto script = std::make_shared<Script>();
    ScriptEngine::current() = script;
    typedef hep::multi_channel_chkpt_with_rng<ScriptEngine, T> chk_t;
    chk_t chk(ScriptEngine(script), c.w, T(), T(0.25));
    chk.channels(c.w.size());
    std::vector<T> w0 = chk.channel_weights();
    Case cn = c;
    cn.w = w0;
    bool ok = w0.size() == c.w.size();
    for (std::size_t i = 0; ok && i < w0.size(); ++i) ok = (w0[i] == T()) == (c.w[i] == T()) && std::isfinite(w0[i]);
    if (!ok) { count("in_run_skipped_bad_normalisation"); return; }
    std::vector<long double> cum = cumulative(cn.w);
    us = make_us(rng, cum);
    for (auto const& u : us) { script->raw.push_back(rng.next()); script->raw.push_back(u.raw); }
    InRun r = {&cn, &cum, &us, 0};
    g_inrun = &r;
    auto res = hep::multi_channel(hep::make_multi_channel_integrand<T>(in_run_f, 1, in_run_map, 1, c.w.size()),
        std::vector<std::size_t>(1, us.size()), chk, hep::callback<chk_t>(hep::callback_mode::silent));
    g_inrun = 0;
    if (r.call != us.size()) viol("in-run-call-count", J().u("calls", r.call).u("expected", us.size()));
    ++ctx().evaluations;
    count("in_run_cases");
    std::uint64_t sig = hash_str("inrun");
    for (auto x : c.w) sig = mix(sig, bits_hash(x));
    if (c.has_zero) nontrivial(sig);
}

} // namespace

std::uint64_t vfh_num_cases(bool thorough) { return thorough ? 60000 : 1500; }

void vfh_run_case(std::uint64_t idx, Rng& rng)
{
    switch (idx % 10)
    {
    case 8: lattice(rng, idx); break;
    case 9: in_run(rng, idx); break;
    default: direct(rng, idx); break;
    }
}

void vfh_selftest()
{
    // the scripted engine must hand the library exactly the canonical numbers the harness expects
    std::uint64_t raws[] = {0, 1, 2, ~std::uint64_t(0), std::uint64_t(1) << 63, (std::uint64_t(1) << 63) - 1, 0x123456789abcdef0ULL,
        std::uint64_t(1) << 40, ~std::uint64_t(0) - (std::uint64_t(1) << 40)};
    auto script = std::make_shared<Script>();
    for (auto r : raws) script->raw.push_back(r);
    ScriptEngine e(script);
    for (auto r : raws)
    {
        std::uint64_t before = e.position();
        T got = std::generate_canonical<T, std::numeric_limits<T>::digits>(e);
        if (e.position() != before + 1 || !same_bits(got, canon<T>(r)) || !(got >= T(0)) || !(got < T(1)))
            inconclusive("ScriptEngine self-test failed: the standard library does not map one 64-bit draw to raw/2^64");
    }
}
