// C06 - non-finite evaluations are counted but never contaminate results or adaptation.
// Differential monitor: a poisoned run and its zeroed twin must agree bit for bit in everything but the
// non_zero counters, over all adaptive iterations; every reported number of the poisoned run is finite.
#include "vf_main.hpp"
#include "rec.hpp"
#include "mcmap.hpp"
#include "hep/mc-mpi.hpp"

typedef VF_T T;
using namespace vf;

namespace
{

struct Cfg
{
    std::uint64_t salt;
    unsigned rate_pm;       // poison rate per mille; 0 = exactly the points whose hash % 4096 == 7
    int kind;               // 0 NaN, 1 +inf, 2 -inf, 3 mixed
    int source;             // 0 integrand return, 1 projector.add value, 2 weight (map)
    int map_mode;           // source 2: 0 jacobian NaN, 1 jacobian inf, 2 total density zero, 3 density of the disabled channels non-finite
    bool has_dist, two_d;
    unsigned zero_pm;
    bool twin;
};

bool is_poison(Cfg const& c, std::uint64_t h)
{
    if (c.rate_pm == 0) return (h >> 8) % 512 == 7;
    return (h >> 8) % 1000 < c.rate_pm;
}

T nonfinite(Cfg const& c, std::uint64_t h)
{
    int k = c.kind == 3 ? int((h >> 32) % 3) : c.kind;
    return k == 0 ? std::numeric_limits<T>::quiet_NaN() : k == 1 ? std::numeric_limits<T>::infinity() : -std::numeric_limits<T>::infinity();
}

struct Counts { std::uint64_t poisoned = 0, visited = 0; };

T value_fn(Cfg const& c, Counts* cnt, CallEv<T>& e, Access<T>& a)
{
    std::uint64_t h = point_hash(e.point, c.salt);
    bool poison = is_poison(c, h);
    T base = T(1);
    for (T x : (e.kind == 2 ? e.coords : e.point)) { T z = (x - T(0.3)) * T(6); base *= T(1) / (T(1) + z * z); }
    if ((h % 1000) < c.zero_pm) base = T();
    if (h & 16) base = -base;
    ++cnt->visited;
    if (c.has_dist)
    {
        T addv = base == T() ? T(0.125) : base;
        bool add_nonfinite = (c.source == 1 && poison) || (c.source == 2 && poison);
        if (c.source == 1 && poison) addv = nonfinite(c, h);
        if (!(c.twin && add_nonfinite))
        {
            if (c.two_d) a.add(0, e.point[0], e.point[e.point.size() - 1], addv);
            else a.add(0, e.point[0], addv);
        }
    }
    if (c.source == 0 && poison) { ++cnt->poisoned; return c.twin ? T() : nonfinite(c, h); }
    if (c.source == 2 && poison && base != T()) { ++cnt->poisoned; return c.twin ? T() : base; }
    return base;
}

struct PoisonMap
{
    PowerMap<T> inner;
    Cfg c;
    T operator()(std::size_t channel, std::vector<T> const& rn, std::vector<T>& co, std::vector<std::size_t> const& enabled, std::vector<T>& dens,
        hep::multi_channel_map action) const
    {
        T j = inner(channel, rn, co, enabled, dens, action);
        if (c.source == 2 && c.map_mode == 3 && action == hep::multi_channel_map::calculate_densities)
        {
            // a map that populates all densities, also those of the disabled channels; at the poisoned points these are NaN / infinite
            // (a formula undefined outside the channel's support): 0 * non-finite makes the total density, hence the weight, NaN
            std::uint64_t h = point_hash(rn, c.salt);
            bool poison = is_poison(c, h);
            if (poison && enabled.size() == dens.size()) return std::numeric_limits<T>::quiet_NaN();
            for (std::size_t ch = 0; ch < dens.size(); ++ch)
                if (std::find(enabled.begin(), enabled.end(), ch) == enabled.end()) dens[ch] = poison ? nonfinite(c, h) : T(1);
            return j;
        }
        if (c.source == 2 && action == hep::multi_channel_map::calculate_densities && is_poison(c, point_hash(rn, c.salt)))
        {
            if (c.map_mode == 0) return std::numeric_limits<T>::quiet_NaN();
            if (c.map_mode == 1) return std::numeric_limits<T>::infinity();
            for (std::size_t ch : enabled) dens[ch] = T();
        }
        return j;
    }
};

// field-wise snapshot of a result: (name, bits-hash, printable, is counter that may differ)
struct Field { std::string name; std::uint64_t h; std::string txt; bool nz; bool finite; };

void snap_mc(std::vector<Field>& f, std::string const& pre, hep::mc_result<T> const& r, bool top)
{
    auto num = [&](std::string const& n, T v) { Field x = {pre + n, bits_hash(v), fmt(v), false, (bool)std::isfinite(v)}; f.push_back(x); };
    auto cnt = [&](std::string const& n, std::size_t v, bool nz) { Field x = {pre + n, v, std::to_string(v), nz, true}; f.push_back(x); };
    cnt("calls", r.calls(), false);
    cnt("non_zero_calls", r.non_zero_calls(), top);
    cnt("finite_calls", r.finite_calls(), false);
    num("sum", r.sum());
    num("sum_of_squares", r.sum_of_squares());
}

void snap_plain(std::vector<Field>& f, std::string const& pre, hep::plain_result<T> const& r)
{
    snap_mc(f, pre, r, true);
    for (std::size_t d = 0; d < r.distributions().size(); ++d)
        for (std::size_t b = 0; b < r.distributions()[d].results().size(); ++b)
            snap_mc(f, pre + "dist" + std::to_string(d) + ".bin" + std::to_string(b) + ".", r.distributions()[d].results()[b], false);
}

void snap_vec(std::vector<Field>& f, std::string const& pre, std::vector<T> const& v)
{
    for (std::size_t i = 0; i < v.size(); ++i) { Field x = {pre + "[" + std::to_string(i) + "]", bits_hash(v[i]), fmt(v[i]), false, (bool)std::isfinite(v[i])}; f.push_back(x); }
}

std::vector<T> grid_vec(hep::vegas_pdf<T> const& p)
{
    std::vector<T> g;
    for (std::size_t d = 0; d < p.dimensions(); ++d) for (std::size_t b = 0; b <= p.bins(); ++b) g.push_back(p.bin_left(d, b));
    return g;
}

void snap(std::vector<Field>& f, hep::plain_result<T> const& r, std::size_t k) { snap_plain(f, "it" + std::to_string(k) + ".", r); }
void snap(std::vector<Field>& f, hep::vegas_result<T> const& r, std::size_t k)
{
    std::string pre = "it" + std::to_string(k) + ".";
    snap_plain(f, pre, r);
    snap_vec(f, pre + "adjustment", r.adjustment_data());
    snap_vec(f, pre + "pdf", grid_vec(r.pdf()));
}
void snap(std::vector<Field>& f, hep::multi_channel_result<T> const& r, std::size_t k)
{
    std::string pre = "it" + std::to_string(k) + ".";
    snap_plain(f, pre, r);
    snap_vec(f, pre + "adjustment", r.adjustment_data());
    snap_vec(f, pre + "weights", r.channel_weights());
}

template <typename Chk> void snap_next(std::vector<Field>& f, Chk const& chk, hep::plain_result<T> const*) { (void)f; (void)chk; }
template <typename Chk> void snap_next(std::vector<Field>& f, Chk const& chk, hep::vegas_result<T> const*) { snap_vec(f, "next.pdf", grid_vec(chk.pdf())); }
template <typename Chk> void snap_next(std::vector<Field>& f, Chk const& chk, hep::multi_channel_result<T> const*) { snap_vec(f, "next.weights", chk.channel_weights()); }

struct Out { std::vector<Field> fields; std::string gen; Counts cnt; std::vector<std::uint64_t> poisoned_per_iter; };

template <typename Chk> void snapshot(Chk const& chk, Out& o)
{
    for (std::size_t k = 0; k < chk.results().size(); ++k)
    {
        snap(o.fields, chk.results()[k], k);
        // value / error must be finite numbers as well (N >= 2)
        auto const& r = chk.results()[k];
        if (r.calls() >= 2)
        {
            Field v = {"it" + std::to_string(k) + ".value()", bits_hash(r.value()), fmt(r.value()), false, (bool)std::isfinite(r.value())};
            o.fields.push_back(v);
            T var = r.variance();
            Field e = {"it" + std::to_string(k) + ".variance()", bits_hash(var), fmt(var), false, (bool)std::isfinite(var)};
            o.fields.push_back(e);
        }
    }
    if (!chk.results().empty()) snap_next(o.fields, chk, &chk.results().back());
    o.gen = to_text(chk.generator());
}

struct IterCb
{
    Out* o; Counts* cnt; std::uint64_t* last; Log<T>* log;
    template <typename C> bool operator()(C const&) { o->poisoned_per_iter.push_back(cnt->poisoned - *last); *last = cnt->poisoned; log->clear(); return true; }
};

void run_one(Cfg c, int integ, std::size_t dims, std::vector<std::size_t> const& calls, std::uint32_t eseed, std::size_t bins, std::size_t channels,
    std::vector<T> const& weights, Out& o)
{
    Log<T> log;
    RecIntegrand<T> f;
    f.log = &log;
    Counts* cnt = &o.cnt;
    f.fn = [c, cnt](CallEv<T>& e, Access<T>& a) { return value_fn(c, cnt, e, a); };
    std::mt19937 eng(eseed);
    std::uint64_t last = 0;
    IterCb cbk = {&o, cnt, &last, &log};
    hep::distribution_parameters<T> p1 = hep::make_dist_params<T>(5, T(0), T(1), "one");
    hep::distribution_parameters<T> p2(3, 4, T(0), T(1), T(0), T(1), "two");
    hep::distribution_parameters<T> const& dp = c.two_d ? p2 : p1;
    if (integ == 0)
    {
        typedef hep::plain_chkpt_with_rng<std::mt19937, T> chk_t;
        if (c.has_dist) snapshot(hep::plain(hep::make_integrand<T>(f, dims, dp), calls, chk_t(eng), cbk), o);
        else snapshot(hep::plain(hep::make_integrand<T>(f, dims), calls, chk_t(eng), cbk), o);
    }
    else if (integ == 1)
    {
        typedef hep::vegas_chkpt_with_rng<std::mt19937, T> chk_t;
        if (c.has_dist) snapshot(hep::vegas(hep::make_integrand<T>(f, dims, dp), calls, chk_t(eng, bins, T(1.5)), cbk), o);
        else snapshot(hep::vegas(hep::make_integrand<T>(f, dims), calls, chk_t(eng, bins, T(1.5)), cbk), o);
    }
    else
    {
        PoisonMap pm;
        for (std::size_t ch = 0; ch < channels; ++ch) pm.inner.a.push_back(T(ch) * T(0.75));
        pm.c = c;
        typedef hep::multi_channel_chkpt_with_rng<std::mt19937, T> chk_t;
        if (c.has_dist) snapshot(hep::multi_channel(hep::make_multi_channel_integrand<T>(f, dims, pm, dims, channels, dp), calls, chk_t(eng, weights, T(0.01), T(0.25)), cbk), o);
        else snapshot(hep::multi_channel(hep::make_multi_channel_integrand<T>(f, dims, pm, dims, channels), calls, chk_t(eng, weights, T(0.01), T(0.25)), cbk), o);
    }
}

// the same pair through the MPI integrators on the thread shim: every rank has its own recorder and counters; what rank 0 returns is judged
struct MpiIterCb
{
    std::vector<std::uint64_t>* per_iter; Counts* cnt; std::uint64_t* last; Log<T>* log;
    template <typename C> bool operator()(MPI_Comm, C const&) { per_iter->push_back(cnt->poisoned - *last); *last = cnt->poisoned; log->clear(); return true; }
};

bool run_one_mpi(Cfg c, int integ, int P, std::uint64_t wseed, std::size_t dims, std::vector<std::size_t> const& calls, std::uint32_t eseed, std::size_t bins, std::size_t channels,
    std::vector<T> const& weights, Out& o)
{
    std::vector<Counts> cnts(P);
    std::vector<std::vector<std::uint64_t>> per_iter(P);
    hep::distribution_parameters<T> p1 = hep::make_dist_params<T>(5, T(0), T(1), "one");
    hep::distribution_parameters<T> p2(3, 4, T(0), T(1), T(0), T(1), "two");
    hep::distribution_parameters<T> const& dp = c.two_d ? p2 : p1;
    VfWorld world;
    vf_mpi_run(world, P, wseed, [&](int rank, MPI_Comm comm) {
        Log<T> log;
        RecIntegrand<T> f;
        f.log = &log;
        Counts* cnt = &cnts[rank];
        f.fn = [c, cnt](CallEv<T>& e, Access<T>& a) { return value_fn(c, cnt, e, a); };
        std::mt19937 eng(eseed);
        std::uint64_t last = 0;
        MpiIterCb cbk = {&per_iter[rank], cnt, &last, &log};
        Out mine;
        Out& dst = rank == 0 ? o : mine;
        if (integ == 0)
        {
            typedef hep::plain_chkpt_with_rng<std::mt19937, T> chk_t;
            if (c.has_dist) snapshot(hep::mpi_plain(comm, hep::make_integrand<T>(f, dims, dp), calls, chk_t(eng), cbk), dst);
            else snapshot(hep::mpi_plain(comm, hep::make_integrand<T>(f, dims), calls, chk_t(eng), cbk), dst);
        }
        else if (integ == 1)
        {
            typedef hep::vegas_chkpt_with_rng<std::mt19937, T> chk_t;
            if (c.has_dist) snapshot(hep::mpi_vegas(comm, hep::make_integrand<T>(f, dims, dp), calls, chk_t(eng, bins, T(1.5)), cbk), dst);
            else snapshot(hep::mpi_vegas(comm, hep::make_integrand<T>(f, dims), calls, chk_t(eng, bins, T(1.5)), cbk), dst);
        }
        else
        {
            PoisonMap pm;
            for (std::size_t ch = 0; ch < channels; ++ch) pm.inner.a.push_back(T(ch) * T(0.75));
            pm.c = c;
            typedef hep::multi_channel_chkpt_with_rng<std::mt19937, T> chk_t;
            if (c.has_dist) snapshot(hep::mpi_multi_channel(comm, hep::make_multi_channel_integrand<T>(f, dims, pm, dims, channels, dp), calls, chk_t(eng, weights, T(0.01), T(0.25)), cbk), dst);
            else snapshot(hep::mpi_multi_channel(comm, hep::make_multi_channel_integrand<T>(f, dims, pm, dims, channels), calls, chk_t(eng, weights, T(0.01), T(0.25)), cbk), dst);
        }
    });
    if (world.aborted || vf_mpi_take_misuse() != 0) return false;
    o.cnt = Counts();
    o.poisoned_per_iter.assign(calls.size(), 0);
    for (int r = 0; r < P; ++r)
    {
        o.cnt.poisoned += cnts[r].poisoned;
        o.cnt.visited += cnts[r].visited;
        if (per_iter[r].size() != calls.size()) return false;
        for (std::size_t i = 0; i < calls.size(); ++i) o.poisoned_per_iter[i] += per_iter[r][i];
    }
    return true;
}

void run_case(Rng& rng, std::uint64_t idx)
{
    int integ = idx % 3;
    Cfg c;
    c.salt = rng.next();
    static const unsigned rates[] = {0, 10, 300, 1000};
    c.rate_pm = rates[rng.below(4)];
    c.kind = rng.below(4);
    c.has_dist = rng.below(2);
    c.two_d = rng.below(2);
    c.source = integ == 2 ? rng.below(3) : rng.below(2);
    if (c.source == 1 && !c.has_dist) c.source = 0;
    c.map_mode = rng.below(4);
    c.zero_pm = rng.below(2) ? 0 : 200;
    c.twin = false;
    std::size_t dims = rng.range(1, 3), iters = rng.range(3, 6);
    std::vector<std::size_t> calls;
    for (std::size_t i = 0; i < iters; ++i) calls.push_back(rng.range(100, 1200));
    std::size_t bins = rng.range(2, 16), channels = rng.range(1, 4);
    std::vector<T> weights(channels);
    for (auto& w : weights) w = T(rng.range(1, 5));
    if (channels > 1 && rng.below(2)) weights[rng.below(channels)] = T();
    bool any = false;
    for (T w : weights) any = any || w != T();
    if (!any) weights[0] = T(1);
    std::uint32_t eseed = (std::uint32_t)rng.next();
    static char const* names[] = {"plain", "vegas", "multi_channel"};
    static char const* srcs[] = {"integrand-return", "projector-add-value", "weight(map)"};
    J info;
    info.s("T", tname<T>::get()).s("integrator", names[integ]).u("dims", dims).uv("calls", calls).u("poison_per_mille", c.rate_pm).i("kind", c.kind)
        .s("source", srcs[c.source]).i("map_mode", c.map_mode).b("dist", c.has_dist).b("two_d", c.two_d).u("zero_per_mille", c.zero_pm).u("bins", bins).fv("weights", weights);
    Out A, B;
    Cfg ct = c;
    ct.twin = true;
    int P = rng.below(4) == 0 ? int(rng.range(2, 4)) : 1;
    if (P == 1)
    {
        run_one(c, integ, dims, calls, eseed, bins, channels, weights, A);
        run_one(ct, integ, dims, calls, eseed, bins, channels, weights, B);
    }
    else
    {
        // both runs of the pair use the same world seed, hence the same reduction orders
        std::uint64_t wseed = rng.next();
        info.i("mpi_ranks", P);
        count("pairs_through_the_mpi_integrators");
        if (!run_one_mpi(c, integ, P, wseed, dims, calls, eseed, bins, channels, weights, A) || !run_one_mpi(ct, integ, P, wseed, dims, calls, eseed, bins, channels, weights, B))
        { viol("mpi:collective-mismatch-or-wrong-communicator", info); return; }
    }
    ++ctx().evaluations;
    count(std::string("pairs_") + names[integ]);
    count(std::string("pairs_source_") + srcs[c.source]);
    count("poisoned_evaluations", A.cnt.poisoned);
    // every reported number of the poisoned run is finite
    for (auto const& f : A.fields)
    {
        count("fields_checked_finite");
        if (!f.finite)
        {
            std::string n = f.name.substr(f.name.find('.') + 1);
            n = n.substr(0, n.find('['));
            viol(std::string("non-finite-number-reported:") + names[integ] + ":" + (n.find("dist") == 0 ? "bin" : n), J(info).s("field", f.name).s("value", f.txt));
            return;
        }
    }
    if (A.fields.size() != B.fields.size() || A.cnt.visited != B.cnt.visited) { viol("runs-diverged-in-shape", J(info).u("A", A.fields.size()).u("B", B.fields.size())); return; }
    std::size_t it = 0;
    for (std::size_t i = 0; i < A.fields.size(); ++i)
    {
        Field const& a = A.fields[i];
        Field const& b = B.fields[i];
        count("fields_compared");
        if (a.nz)
        {
            std::uint64_t expect = b.h + (it < A.poisoned_per_iter.size() ? A.poisoned_per_iter[it] : 0);
            ++it;
            if (a.h != expect) { viol(std::string("non_zero_calls-not-twin-plus-poisoned:") + names[integ], J(info).s("field", a.name).u("poisoned_run", a.h).u("twin", b.h).u("expected", expect)); return; }
            continue;
        }
        if (a.h != b.h)
        {
            std::string n = a.name.substr(a.name.find('.') + 1);
            n = n.substr(0, n.find('['));
            if (n.find("dist") == 0) n = "bin." + n.substr(n.rfind('.') + 1);
            viol(std::string("poisoned-run-differs-from-zeroed-twin:") + names[integ] + ":" + n + ":" + srcs[c.source], J(info).s("field", a.name).s("poisoned_run", a.txt).s("twin", b.txt));
            return;
        }
    }
    if (A.gen != B.gen) { viol("stored-generator-differs", info); return; }
    if (A.poisoned_per_iter != B.poisoned_per_iter) { viol("harness:poison-sets-differ", info); return; }
    if (A.cnt.poisoned > 0 && A.cnt.poisoned < A.cnt.visited && integ != 0) nontrivial(hash_str(info.str()));
    if (A.cnt.poisoned == A.cnt.visited) count("pairs_everything_poisoned");
    sample(J(info).u("poisoned", A.cnt.poisoned).u("evaluations", A.cnt.visited), 5);
}

} // namespace

std::uint64_t vfh_num_cases(bool thorough) { return thorough ? 40000 : 450; }
void vfh_run_case(std::uint64_t idx, Rng& rng) { run_case(rng, idx); }
void vfh_selftest() {}
