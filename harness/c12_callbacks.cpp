// C12 - iterations run in order and stop only when the callback says so.
// Monitor: recording callback (optionally wrapping the built-in hep::callback / hep::mpi_callback) plus an
// invocation counter in the integrand; reference stop decision = documented variance-weighted combination
// evaluated in long double from results().
#include "vf_main.hpp"
#include "mcmap.hpp"
#include "hep/mc-mpi.hpp"

#include <iostream>
#include <unistd.h>

typedef VF_T T;
using namespace vf;

namespace
{

struct CbRec
{
    std::size_t size;
    std::uint64_t invocations;
    bool decision;
    std::string text;
    std::vector<std::string> result_texts;
    LD rel;          // reference combined relative error after this iteration (NaN / inf possible)
    T rel_T;         // the same quantity formed in T from the public combination function (for exact-equality targets)
    bool degenerate; // some S_i is zero or not finite: the documented combination is undefined
};

struct Shared
{
    std::uint64_t invocations = 0;
    int cls = 0;
    std::uint64_t salt = 0;
    std::uint64_t zero_from = 0, zero_to = 0;   // class 6: the integrand vanishes for invocations in (zero_from, zero_to]
};

Shared*& shared()
{
    static thread_local Shared* s = 0;
    return s;
}

static char const* cls_names[] = {"ordinary", "identically-zero", "constant", "zero-mean", "non-finite-everywhere", "non-finite-sometimes", "zero-throughout-one-iteration"};

template <typename P> T f_any(P const& p)
{
    Shared& s = *shared();
    ++s.invocations;
    T x = p.point()[0];
    switch (s.cls)
    {
    case 1: return T();
    case 2: return T(2.5);
    case 3: return (s.invocations % 2) ? T(1) : T(-1);
    case 4: return std::numeric_limits<T>::quiet_NaN();
    case 5: return (s.invocations % 5 == 0) ? std::numeric_limits<T>::infinity() : x * x + T(0.1);
    case 6: return (s.invocations > s.zero_from && s.invocations <= s.zero_to) ? T() : T(3) * x * x + T(0.2);
    default: return T(3) * x * x + T(0.2);
    }
}

template <typename R> void reference(std::vector<R> const& results, LD& rel, bool& degenerate)
{
    LD sw = 0, se = 0;
    degenerate = false;
    bool any = false;
    for (auto const& r : results)
    {
        if (r.non_zero_calls() == 0) continue;
        LD var = r.variance(), E = r.value();
        if (!(var > 0) || !std::isfinite(var) || !std::isfinite(E)) { degenerate = true; continue; }
        sw += 1 / var; se += E / var; any = true;
    }
    if (!any) { rel = std::numeric_limits<LD>::quiet_NaN(); return; }
    LD E = se / sw, S = std::sqrt(1 / sw);
    rel = S / std::fabs(E);
    // the combined result goes through (value, error) -> (sum, sum of squares) -> error(): if that conversion is
    // ill conditioned in T (error tiny compared with the value, e.g. a constant integrand) the library's relative
    // error is rounding noise and the decision cannot be judged
    LD N = 0;
    for (auto const& r : results) N += r.calls();
    LD kappa = 1 + E * E / ((N - 1) * S * S);
    if (kappa * eps<T>() * 64 > 0.05L) degenerate = true;
    for (auto const& r : results)
    {
        if (r.non_zero_calls() == 0) continue;
        LD k1 = 1 + (LD)r.value() * r.value() / ((r.calls() - 1) * (LD)r.variance());
        if (k1 * eps<T>() * 64 > 0.05L) degenerate = true;
    }
}

template <typename Chk> void record(Chk const& c, std::vector<CbRec>& log, bool decision)
{
    CbRec r;
    r.size = c.results().size();
    r.invocations = shared()->invocations;
    r.decision = decision;
    std::ostringstream o;
    c.serialize(o);
    r.text = o.str();
    for (auto const& res : c.results()) { std::ostringstream q; res.serialize(q); r.result_texts.push_back(q.str()); }
    reference(c.results(), r.rel, r.degenerate);
    {
        auto const all = hep::accumulate<hep::weighted_with_variance>(c.results().begin(), c.results().end());
        r.rel_T = all.error() / std::fabs(all.value());
    }
    log.push_back(r);
}

// user callback: true except at position false_at (1-based count of its invocations in this run segment)
template <typename Chk> struct UserCb
{
    std::vector<CbRec>* log;
    long false_at;
    bool operator()(Chk const& c)
    {
        bool d = !(false_at > 0 && (long)log->size() + 1 == false_at);
        record(c, *log, d);
        return d;
    }
    bool operator()(MPI_Comm, Chk const& c) { return (*this)(c); }
};

// built-in callback wrapped by the recorder
template <typename Chk> struct BuiltinCb
{
    std::vector<CbRec>* log;
    hep::callback<Chk> inner;
    bool operator()(Chk const& c)
    {
        bool d = inner(c);
        record(c, *log, d);
        return d;
    }
};

template <typename Chk> struct BuiltinMpiCb
{
    std::vector<CbRec>* log;
    hep::mpi_callback<Chk> inner;
    bool operator()(MPI_Comm comm, Chk const& c)
    {
        bool d = inner(comm, c);
        record(c, *log, d);
        return d;
    }
};

struct CoutSilencer
{
    std::ostringstream sink;
    std::streambuf* old;
    CoutSilencer() : old(std::cout.rdbuf(sink.rdbuf())) {}
    ~CoutSilencer() { std::cout.rdbuf(old); }
};

template <typename Chk> std::string text_of(Chk const& c) { std::ostringstream o; c.serialize(o); return o.str(); }

// online state machine over one run segment
void judge_log(std::vector<CbRec> const& log, std::vector<std::size_t> const& calls, std::size_t size_before, std::uint64_t inv_before,
    std::string const& returned_text, std::string const& initial_text, J const& info, char const* what)
{
    std::uint64_t inv = inv_before;
    for (std::size_t k = 0; k < log.size(); ++k)
    {
        CbRec const& r = log[k];
        count("callback_invocations_checked");
        if (k >= calls.size()) { viol(std::string("callback-invoked-more-often-than-iterations:") + what, J(info).u("invocation", k + 1)); return; }
        if (r.size != size_before + k + 1) { viol(std::string("callback-saw-wrong-number-of-results:") + what, J(info).u("invocation", k + 1).u("results", r.size).u("expected", size_before + k + 1)); return; }
        inv += calls[k];
        if (r.invocations != inv) { viol(std::string("integrand-invocations-between-callbacks:") + what, J(info).u("invocation", k + 1).u("seen", r.invocations).u("expected", inv)); return; }
        if (k > 0)
        {
            for (std::size_t i = 0; i < log[k - 1].result_texts.size(); ++i)
                if (log[k - 1].result_texts[i] != r.result_texts[i]) { viol(std::string("earlier-results-changed:") + what, J(info).u("invocation", k + 1).u("result", i)); return; }
            if (!log[k - 1].decision) { viol(std::string("run-continued-after-false:") + what, J(info).u("invocation", k + 1)); return; }
        }
    }
    if (!log.empty() && log.back().decision && log.size() != calls.size()) { viol(std::string("run-stopped-after-true:") + what, J(info).u("iterations_done", log.size()).u("requested", calls.size())); return; }
    if (log.empty() && !calls.empty()) { viol(std::string("callback-never-invoked:") + what, info); return; }
    std::string const& want = log.empty() ? initial_text : log.back().text;
    if (returned_text != want) { viol(std::string("returned-checkpoint-is-not-the-last-one-handed-to-the-callback:") + what, info); return; }
    if (shared()->invocations != inv) viol(std::string("integrand-invoked-after-last-callback:") + what, J(info).u("seen", shared()->invocations).u("expected", inv));
}

// decisions of the built-in callback against the reference
void judge_builtin(std::vector<CbRec> const& log, LD target, J const& info, char const* what)
{
    for (std::size_t k = 0; k < log.size(); ++k)
    {
        CbRec const& r = log[k];
        count("builtin_decisions_checked");
        if (target == 0)
        {
            if (!r.decision) { viol(std::string("builtin-target0-ended-run-early:") + cls_names[shared()->cls], J(info).s("what", what).u("iteration", k + 1).f("rel", r.rel)); return; }
            continue;
        }
        if (r.degenerate) { count("degenerate_decisions_unjudged"); continue; }
        bool stop = r.rel <= target;      // false for NaN
        if (std::isfinite(r.rel) && std::fabs(r.rel - target) <= 64 * eps<T>() * target) { count("ambiguous_decisions"); continue; }
        if (r.decision == stop)
        {
            viol(stop ? std::string("builtin-continued-although-target-reached") : std::string("builtin-stopped-before-target-reached:") + cls_names[shared()->cls],
                J(info).s("what", what).u("iteration", k + 1).f("rel", r.rel).f("target", target));
            return;
        }
        if (stop) count("builtin_stops_on_target");
    }
}

struct Setup
{
    int integ;
    std::size_t dims, bins, channels;
    std::uint32_t eseed;
};

struct UserFactory
{
    std::vector<CbRec>* log;
    long false_at;
    template <typename C> UserCb<C> make() const { UserCb<C> cb = {log, false_at}; return cb; }
};

struct BuiltinFactory
{
    std::vector<CbRec>* log;
    int mode;
    std::string file;
    T target;
    template <typename C> BuiltinCb<C> make() const;
};

template <typename Fac> std::string run_serial(Setup const& s, std::vector<std::size_t> const& calls, std::string const& from_text, Fac const& fac, std::string& initial_text,
    std::size_t& size_before)
{
    std::mt19937 eng(s.eseed);
    if (s.integ == 0)
    {
        typedef hep::plain_chkpt_with_rng<std::mt19937, T> chk_t;
        chk_t chk(eng);
        if (!from_text.empty()) { std::istringstream in(from_text); chk = chk_t(in); }
        initial_text = text_of(chk); size_before = chk.results().size();
        return text_of(hep::plain(hep::make_integrand<T>(f_any<hep::mc_point<T>>, s.dims), calls, chk, fac.template make<chk_t>()));
    }
    if (s.integ == 1)
    {
        typedef hep::vegas_chkpt_with_rng<std::mt19937, T> chk_t;
        chk_t chk(eng, s.bins, T(1.5));
        if (!from_text.empty()) { std::istringstream in(from_text); chk = chk_t(in); }
        else chk.dimensions(s.dims);
        initial_text = text_of(chk); size_before = chk.results().size();
        return text_of(hep::vegas(hep::make_integrand<T>(f_any<hep::vegas_point<T>>, s.dims), calls, chk, fac.template make<chk_t>()));
    }
    typedef hep::multi_channel_chkpt_with_rng<std::mt19937, T> chk_t;
    PowerMap<T> pm;
    for (std::size_t c = 0; c < s.channels; ++c) pm.a.push_back(T(c) * T(0.5));
    chk_t chk(eng, T(), T(0.25));
    if (!from_text.empty()) { std::istringstream in(from_text); chk = chk_t(in); }
    else chk.channels(s.channels);
    initial_text = text_of(chk); size_before = chk.results().size();
    return text_of(hep::multi_channel(hep::make_multi_channel_integrand<T>(f_any<hep::multi_channel_point<T>>, s.dims, pm, s.dims, s.channels), calls, chk, fac.template make<chk_t>()));
}


std::string tmpfile_name(std::uint64_t idx)
{
    char b[128];
    std::snprintf(b, sizeof b, "c12_%d_%llu.chkpt", (int)getpid(), (unsigned long long)idx);
    return b;
}

hep::callback_mode mode_of(int m)
{
    static const hep::callback_mode modes[] = {hep::callback_mode::silent, hep::callback_mode::silent_and_write_chkpt, hep::callback_mode::verbose,
        hep::callback_mode::verbose_and_write_chkpt};
    return modes[m];
}

template <typename C> BuiltinCb<C> BuiltinFactory::make() const
{
    BuiltinCb<C> cb = {log, hep::callback<C>(mode_of(mode), file, target)};
    return cb;
}

std::string run_builtin(Setup const& s, std::vector<std::size_t> const& calls, std::string const& from, int mode, std::string const& file, T target,
    std::vector<CbRec>& log, std::string& initial, std::size_t& before)
{
    CoutSilencer quiet;
    BuiltinFactory fac = {&log, mode, file, target};
    return run_serial(s, calls, from, fac, initial, before);
}

std::string run_user(Setup const& s, std::vector<std::size_t> const& calls, std::string const& from, long false_at, std::vector<CbRec>& log, std::string& initial,
    std::size_t& before)
{
    UserFactory fac = {&log, false_at};
    return run_serial(s, calls, from, fac, initial, before);
}

// MPI forms on the shim: every rank records its own log
struct RankOut { std::vector<CbRec> log; std::string returned, initial; std::uint64_t invocations = 0; std::size_t before = 0; };

void run_mpi(Setup const& s, int P, std::uint64_t wseed, std::vector<std::size_t> const& calls, int mode, std::string const& file, T target, bool user, long false_at,
    int cls, std::vector<RankOut>& out, VfWorld& world)
{
    out.assign(P, RankOut());
    vf_mpi_run(world, P, wseed, [&](int rank, MPI_Comm comm) {
        Shared sh;
        sh.cls = cls;
        shared() = &sh;
        RankOut& o = out[rank];
        std::mt19937 eng(s.eseed);
        if (s.integ == 0)
        {
            typedef hep::plain_chkpt_with_rng<std::mt19937, T> C;
            C chk(eng);
            o.initial = text_of(chk);
            auto integrand = hep::make_integrand<T>(f_any<hep::mc_point<T>>, s.dims);
            if (user) { UserCb<C> cb = {&o.log, false_at}; o.returned = text_of(hep::mpi_plain(comm, integrand, calls, chk, cb)); }
            else { BuiltinMpiCb<C> cb = {&o.log, hep::mpi_callback<C>(mode_of(mode), file, target)}; o.returned = text_of(hep::mpi_plain(comm, integrand, calls, chk, cb)); }
        }
        else if (s.integ == 1)
        {
            typedef hep::vegas_chkpt_with_rng<std::mt19937, T> C;
            C chk(eng, s.bins, T(1.5));
            chk.dimensions(s.dims);
            o.initial = text_of(chk);
            auto integrand = hep::make_integrand<T>(f_any<hep::vegas_point<T>>, s.dims);
            if (user) { UserCb<C> cb = {&o.log, false_at}; o.returned = text_of(hep::mpi_vegas(comm, integrand, calls, chk, cb)); }
            else { BuiltinMpiCb<C> cb = {&o.log, hep::mpi_callback<C>(mode_of(mode), file, target)}; o.returned = text_of(hep::mpi_vegas(comm, integrand, calls, chk, cb)); }
        }
        else
        {
            typedef hep::multi_channel_chkpt_with_rng<std::mt19937, T> C;
            PowerMap<T> pm;
            for (std::size_t c = 0; c < s.channels; ++c) pm.a.push_back(T(c) * T(0.5));
            C chk(eng, T(), T(0.25));
            chk.channels(s.channels);
            o.initial = text_of(chk);
            auto integrand = hep::make_multi_channel_integrand<T>(f_any<hep::multi_channel_point<T>>, s.dims, pm, s.dims, s.channels);
            if (user) { UserCb<C> cb = {&o.log, false_at}; o.returned = text_of(hep::mpi_multi_channel(comm, integrand, calls, chk, cb)); }
            else { BuiltinMpiCb<C> cb = {&o.log, hep::mpi_callback<C>(mode_of(mode), file, target)}; o.returned = text_of(hep::mpi_multi_channel(comm, integrand, calls, chk, cb)); }
        }
        o.invocations = sh.invocations;
        shared() = 0;
    });
}

void run_case(Rng& rng, std::uint64_t idx)
{
    Setup s;
    s.integ = idx % 3;
    s.dims = rng.range(1, 2);
    s.bins = rng.range(2, 8);
    s.channels = rng.range(1, 3);
    s.eseed = (std::uint32_t)rng.next();
    std::size_t n = rng.range(1, 8);
    std::vector<std::size_t> calls;
    for (std::size_t i = 0; i < n; ++i) calls.push_back(rng.range(40, 700));
    int kind = (idx / 3) % 7;   // 0 user, 1 builtin target 0, 2 builtin positive target, 3 resumed, 4 mpi target 0 / user, 5 mpi positive target
    Shared sh;
    sh.cls = kind == 6 ? 0 : (kind == 2 || kind == 5) ? (rng.below(3) == 0 ? (int)rng.range(1, 5) : 0) : rng.below(6);
    if ((kind == 1 || kind == 2 || kind == 6) && n >= 2 && rng.below(4) == 0)
    {
        sh.cls = 6;
        std::size_t z = rng.range(1, n - 1);      // not the first iteration
        for (std::size_t i = 0; i < z; ++i) sh.zero_from += calls[i];
        sh.zero_to = sh.zero_from + calls[z];
    }
    shared() = &sh;
    static char const* names[] = {"plain", "vegas", "multi_channel"};
    static char const* kinds[] = {"user-callback", "builtin-target-0", "builtin-positive-target", "resumed", "mpi-target0-or-user", "mpi-positive-target", "builtin-target-exactly-reached"};
    int mode = rng.below(4);
    std::string file = tmpfile_name(idx);
    J info;
    info.s("T", tname<T>::get()).s("integrator", names[s.integ]).s("kind", kinds[kind]).s("integrand", cls_names[sh.cls]).uv("calls", calls).i("mode", mode).u("dims", s.dims);
    std::string initial, returned;
    std::size_t before = 0;
    std::vector<CbRec> log;
    ++ctx().evaluations;
    count(std::string("cases_") + kinds[kind]);
    count(std::string("integrand_") + cls_names[sh.cls]);
    bool nontriv = n >= 2;
    if (kind == 0)
    {
        long false_at = rng.below(3) == 0 ? 0 : (long)rng.range(1, n);
        returned = run_user(s, calls, "", false_at, log, initial, before);
        judge_log(log, calls, before, 0, returned, initial, J(info).i("false_at", false_at), "user-callback");
        std::size_t expect = false_at > 0 ? (std::size_t)false_at : n;
        if (log.size() != expect) viol("user-callback:iterations-performed", J(info).u("performed", log.size()).u("expected", expect));
    }
    else if (kind == 1)
    {
        returned = run_builtin(s, calls, "", mode, file, T(), log, initial, before);
        judge_log(log, calls, before, 0, returned, initial, info, "builtin");
        judge_builtin(log, 0, info, "serial");
    }
    else if (kind == 2)
    {
        // probe the error trajectory with a never-stopping user callback, then aim the target at a chosen iteration
        std::vector<CbRec> probe;
        std::string i2; std::size_t b2;
        run_user(s, calls, "", 0, probe, i2, b2);
        sh.invocations = 0;
        std::size_t aim = rng.below(n + 1);    // n = below every value: never reached
        LD tgt;
        std::vector<LD> rels;
        for (auto const& r : probe) if (std::isfinite(r.rel) && r.rel > 0) rels.push_back(r.rel);
        LD mn = 0.2L, mx = 0.2L;
        if (rels.empty()) count("positive_target_with_undefined_relative_error");
        else { mn = *std::min_element(rels.begin(), rels.end()); mx = *std::max_element(rels.begin(), rels.end()); }
        if (aim >= probe.size() || !std::isfinite(probe[aim].rel)) tgt = mn * 0.5L;
        else if (aim == 0) tgt = std::fmin(1.0L, mx * 1.5L);
        else tgt = probe[aim].rel * 1.02L;
        if (tgt > 1) tgt = 1;
        T target = T(tgt);
        returned = run_builtin(s, calls, "", mode, file, target, log, initial, before);
        judge_log(log, calls, before, 0, returned, initial, J(info).f("target", target), "builtin");
        judge_builtin(log, target, J(info).f("target", target), "serial");
        if (!log.empty() && !log.back().decision && log.size() > 1 && log.size() < n) count("stops_on_a_middle_iteration");
        if (!log.empty() && !log.back().decision && log.size() == 1) count("stops_on_the_first_iteration");
        if (log.size() == n && (log.empty() || log.back().decision)) count("target_never_reached");
    }
    else if (kind == 6)
    {
        // the target is exactly the relative error the combination has after a chosen iteration: the run must
        // stop at the first iteration whose relative error (same expression, same type) is not larger
        std::vector<CbRec> probe;
        std::string i2; std::size_t b2;
        run_user(s, calls, "", 0, probe, i2, b2);
        sh.invocations = 0;
        std::size_t aim = rng.below(probe.size());
        T target = probe[aim].rel_T;
        if (!(target > T()) || !std::isfinite(target)) { shared() = 0; return; }
        std::size_t expect = n;
        for (std::size_t k = 0; k < probe.size(); ++k) if (probe[k].rel_T <= target) { expect = k + 1; break; }
        returned = run_builtin(s, calls, "", mode, file, target, log, initial, before);
        judge_log(log, calls, before, 0, returned, initial, J(info).f("target", target), "builtin");
        count("exact_target_runs");
        if (log.size() != expect)
            viol(log.size() > expect ? "builtin-continued-although-target-exactly-reached" : "builtin-stopped-before-target-reached:exact", J(info).f("target", target).u("iterations", log.size()).u("expected", expect));
    }
    else if (kind == 3)
    {
        if (n < 2) { calls.push_back(100); n = 2; }
        std::size_t cut = rng.range(1, n - 1);
        std::vector<std::size_t> c1(calls.begin(), calls.begin() + cut), c2(calls.begin() + cut, calls.end());
        std::string mid = run_user(s, c1, "", 0, log, initial, before);
        judge_log(log, c1, before, 0, mid, initial, info, "first-segment");
        std::uint64_t inv1 = sh.invocations;
        std::vector<CbRec> log2;
        std::string initial2;
        std::size_t before2 = 0;
        if (rng.below(2))
        {
            long false_at = rng.below(2) ? 0 : (long)rng.range(1, c2.size());
            returned = run_user(s, c2, mid, false_at, log2, initial2, before2);
            judge_log(log2, c2, cut, inv1, returned, initial2, J(info).u("cut", cut).i("false_at", false_at), "resumed-user-callback");
        }
        else
        {
            returned = run_builtin(s, c2, mid, mode, file, T(), log2, initial2, before2);
            judge_log(log2, c2, cut, inv1, returned, initial2, J(info).u("cut", cut), "resumed-builtin");
            judge_builtin(log2, 0, info, "resumed");
        }
        if (before2 != cut) viol("resumed:checkpoint-lost-results", J(info).u("results", before2).u("expected", cut));
        count("resumed_segments_checked");
    }
    else
    {
        int P = (int)rng.range(2, 4);
        bool user = kind == 4 && rng.below(2);
        long false_at = user ? (rng.below(2) ? 0 : (long)rng.range(1, n)) : 0;
        T target = T();
        if (kind == 5)
        {
            std::vector<CbRec> probe;
            std::string i2; std::size_t b2;
            run_user(s, calls, "", 0, probe, i2, b2);
            std::vector<LD> rels;
            for (auto const& r : probe) if (std::isfinite(r.rel) && r.rel > 0) rels.push_back(r.rel);
            std::size_t aim = rng.below(probe.size());
            if (rels.empty()) { count("positive_target_with_undefined_relative_error"); target = T(0.1); }
            else target = T(std::fmin(1.0L, (std::isfinite(probe[aim].rel) ? probe[aim].rel : rels[0]) * 1.05L));
        }
        std::vector<RankOut> out;
        VfWorld world;
        int cls = sh.cls;
        {
            CoutSilencer quiet;
            run_mpi(s, P, rng.next(), calls, mode, file, target, user, false_at, cls, out, world);
        }
        J inf2 = J(info).u("world", P).b("user_callback", user).i("false_at", false_at).f("target", target);
        count("mpi_collectives", world.collectives);
        if (std::uint64_t mis = vf_mpi_take_misuse()) viol("mpi:library-used-MPI_COMM_WORLD-instead-of-the-communicator-it-was-given", J(inf2).u("uses", mis));
        if (world.aborted) { viol("mpi:ranks-disagree-on-collectives-or-hang", J(inf2).s("reason", world.abort_reason)); shared() = 0; ::unlink(file.c_str()); return; }
        std::uint64_t total_inv = 0;
        for (int r = 0; r < P; ++r)
        {
            total_inv += out[r].invocations;
            if (out[r].log.size() != out[0].log.size()) { viol("mpi:ranks-performed-different-numbers-of-iterations", J(inf2).u("rank", r).u("iterations", out[r].log.size()).u("rank0", out[0].log.size())); shared() = 0; return; }
            if (out[r].returned != out[0].returned) { viol("mpi:ranks-return-different-checkpoints", J(inf2).u("rank", r)); shared() = 0; return; }
            // per-rank callback log: sizes, decisions, returned checkpoint (integrand counts are per rank: not judged here)
            std::vector<CbRec> const& lg = out[r].log;
            for (std::size_t k = 0; k < lg.size(); ++k)
            {
                if (lg[k].size != k + 1) { viol("mpi:callback-saw-wrong-number-of-results", J(inf2).u("rank", r).u("invocation", k + 1)); shared() = 0; return; }
                if (k > 0 && !lg[k - 1].decision) { viol("mpi:run-continued-after-false", J(inf2).u("rank", r)); shared() = 0; return; }
            }
            if (!lg.empty() && lg.back().decision && lg.size() != n) { viol("mpi:run-stopped-after-true", J(inf2).u("rank", r).u("done", lg.size())); shared() = 0; return; }
            if (!lg.empty() && out[r].returned != lg.back().text) { viol("mpi:returned-checkpoint-is-not-the-last-one-handed-to-the-callback", J(inf2).u("rank", r)); shared() = 0; return; }
            if (!user) judge_builtin(lg, target, inf2, "mpi");
        }
        std::uint64_t expect_inv = 0;
        for (std::size_t k = 0; k < out[0].log.size(); ++k) expect_inv += calls[k];
        if (total_inv != expect_inv) viol("mpi:integrand-invocations", J(inf2).u("seen", total_inv).u("expected", expect_inv));
        if (user && false_at > 0 && out[0].log.size() != (std::size_t)false_at) viol("mpi:user-callback:iterations-performed", J(inf2).u("performed", out[0].log.size()));
        count("mpi_runs_checked");
    }
    ::unlink(file.c_str());
    ::unlink((file + ".tmp").c_str());
    shared() = 0;
    if (nontriv) nontrivial(hash_str(info.str()));
    sample(info, 6);
}

} // namespace

std::uint64_t vfh_num_cases(bool thorough) { return thorough ? 90000 : 630; }
void vfh_run_case(std::uint64_t idx, Rng& rng) { run_case(rng, idx); }
void vfh_selftest() {}
