// C13 - combining results obeys the documented formulas and their algebraic laws.
// Direct monitor on hep::accumulate<weighted_with_variance|weighted_equally> and hep::chi_square_dof with
// long double reference formulas; inputs are read back through the results' own accessors.
#include "vf_main.hpp"
#include "ref.hpp"
#include "hep/mc.hpp"

typedef VF_T T;
using namespace vf;

namespace
{

typedef hep::mc_result<T> R;
typedef std::vector<R>::const_iterator It;

struct Gen
{
    int emax;            // decimal exponent range of estimates
    std::uint64_t cmax;  // maximum calls per result
};

Gen gen()
{
    Gen g;
    if (std::is_same<T, float>::value) { g.emax = 6; g.cmax = 1000000; }
    else { g.emax = 30; g.cmax = 4000000000ULL; }
    return g;
}

R make_result(Rng& rng, LD scale, bool force_empty)
{
    Gen g = gen();
    std::uint64_t calls = rng.below(4) == 0 ? rng.range(2, 50) : rng.range(2, g.cmax);
    if (force_empty) return hep::create_result<T>(calls, 0, 0, T(), T());
    LD mag = scale * std::pow(10.0L, (LD)(rng.u01l() * 2 - 1));
    LD val = (rng.below(2) ? 1 : -1) * mag;
    if (rng.below(10) == 0) val = 0;
    LD rel = std::pow(10.0L, -8 + 9 * rng.u01l());
    if (std::is_same<T, float>::value) rel = std::pow(10.0L, -3 + 4 * rng.u01l());
    LD err = rel * (val == 0 ? scale : std::fabs(val));
    std::uint64_t nz = rng.range(1, calls), fin = rng.range(1, nz);
    return hep::create_result<T>(calls, nz, fin, T(val), T(err));
}

// conditioning of the (value, error) <-> (sum, sumsq) conversion for a result
LD kappa(LD E, LD S, LD N) { return 1 + E * E / ((N - 1) * S * S); }

struct RefOut { LD E, S; LD sumabs; LD sw; std::uint64_t calls, nz, fin; int used; LD minE, maxE, minS; };

RefOut ref_variance(std::vector<R> const& v)
{
    RefOut o = {0, 0, 0, 0, 0, 0, 0, 0, 0, 0, 0};
    bool first = true;
    for (auto const& r : v)
    {
        o.calls += r.calls(); o.nz += r.non_zero_calls(); o.fin += r.finite_calls();
        if (r.non_zero_calls() == 0) continue;
        LD E = r.value(), var = r.variance();
        LD w = 1 / var;
        o.sw += w; o.E += w * E; o.sumabs += w * std::fabs(E); ++o.used;
        LD S = std::sqrt(var);
        if (first) { o.minE = o.maxE = E; o.minS = S; first = false; }
        o.minE = std::fmin(o.minE, E); o.maxE = std::fmax(o.maxE, E); o.minS = std::fmin(o.minS, S);
    }
    if (o.used) { o.E /= o.sw; o.sumabs /= o.sw; o.S = std::sqrt(1 / o.sw); }
    return o;
}

bool inputs_ok(std::vector<R> const& v)
{
    for (auto const& r : v)
    {
        if (r.non_zero_calls() == 0) continue;
        T var = r.variance();
        if (!(var > T()) || !std::isfinite(var) || !std::isfinite(r.value())) return false;
        // the error read back must itself be well conditioned, otherwise the input is noise
        if (kappa(r.value(), std::sqrt((LD)var), r.calls()) * eps<T>() * 64 > 0.01L) return false;
    }
    return true;
}

std::string describe(std::vector<R> const& v)
{
    std::string s = "[";
    for (std::size_t i = 0; i < v.size() && i < 12; ++i)
    {
        char b[160];
        std::snprintf(b, sizeof b, "%s{\"N\":%zu,\"nz\":%zu,\"E\":\"%.12Lg\",\"S\":\"%.6Lg\"}", i ? "," : "", v[i].calls(), v[i].non_zero_calls(),
            (LD)v[i].value(), (LD)v[i].error());
        s += b;
    }
    return s + "]";
}

void judge_variance(std::vector<R> const& v, R const& out, char const* tag, bool& judged)
{
    judged = false;
    RefOut o = ref_variance(v);
    std::size_t m = v.size();
    J info;
    info.s("T", tname<T>::get()).s("what", tag).raw("results", describe(v)).f("out_value", out.value()).f("out_error", out.error()).u("out_calls", out.calls());
    if (out.calls() != o.calls || out.non_zero_calls() != o.nz || out.finite_calls() != o.fin)
    {
        viol("variance-weighted:counters", J(info).u("calls", o.calls).u("nz", o.nz).u("finite", o.fin));
        return;
    }
    if (o.used == 0)
    {
        count("all_empty_combinations");
        if (out.value() != T() && m != 0) viol("variance-weighted:empty-not-zero", info);
        return;
    }
    LD N = o.calls;
    LD tolE = ((m + 6) * o.sumabs + 4 * std::fabs(o.E)) * eps<T>() * 4;
    if (std::fabs((LD)out.value() - o.E) > tolE) { viol("variance-weighted:value", J(info).f("expected", o.E).f("tol", tolE)); return; }
    LD k = kappa(o.E, o.S, N);
    if (k * eps<T>() * 64 > 0.05L) { count("ill_conditioned_error_unjudged"); }
    else
    {
        judged = true;
        LD tolS = o.S * eps<T>() * (4 * (m + 8) + 16 * k);
        if (!(std::fabs((LD)out.error() - o.S) <= tolS)) { viol("variance-weighted:error", J(info).f("expected", o.S).f("tol", tolS).f("kappa", k)); return; }
        // laws
        if ((LD)out.error() > o.minS * (1 + eps<T>() * (4 * (m + 8) + 16 * k))) viol("law:error-larger-than-smallest-input-error", J(info).f("minS", o.minS));
    }
    if ((LD)out.value() < o.minE - tolE || (LD)out.value() > o.maxE + tolE) viol("law:estimate-outside-input-range", J(info).f("min", o.minE).f("max", o.maxE));
    count("variance_combinations_judged");
}

void case_variance(Rng& rng)
{
    Gen g = gen();
    std::size_t m = rng.below(13);
    LD scale = std::pow(10.0L, (LD)rng.range(0, 2 * g.emax) - g.emax);
    std::vector<R> v;
    for (std::size_t i = 0; i < m; ++i) v.push_back(make_result(rng, scale * (rng.below(5) == 0 ? std::pow(10.0L, (LD)rng.below(4)) : 1), rng.below(6) == 0));
    if (!inputs_ok(v)) { count("inputs_rejected"); return; }
    R out = hep::accumulate<hep::weighted_with_variance>(v.cbegin(), v.cend());
    bool judged;
    judge_variance(v, out, "accumulate<weighted_with_variance>", judged);
    ++ctx().evaluations;
    std::uint64_t sig = hash_str(tname<T>::get());
    for (auto const& r : v) sig = mix(mix(sig, r.calls()), mix(bits_hash(r.sum()), bits_hash(r.sum_of_squares())));
    std::uint64_t total = 0;
    for (auto const& r : v) total += r.calls();
    if (total > 4300000000ULL) count("combinations_with_more_than_2^32_calls");
    if (judged && m >= 2) nontrivial(sig);
    sample(J().s("kind", "variance-weighted").s("T", tname<T>::get()).raw("results", describe(v)).f("E", out.value()).f("S", out.error()));

    // permutation invariance (all permutations for m<=4, seeded shuffles beyond)
    RefOut o = ref_variance(v);
    if (o.used >= 2)
    {
        LD N = o.calls, k = kappa(o.E, o.S, N);
        LD tolE = ((m + 6) * o.sumabs + 4 * std::fabs(o.E)) * eps<T>() * 8;
        LD tolS = o.S * eps<T>() * 2 * (4 * (m + 8) + 16 * k);
        std::vector<std::size_t> perm(m);
        for (std::size_t i = 0; i < m; ++i) perm[i] = i;
        int rounds = m <= 4 ? 24 : 6;
        for (int r = 0; r < rounds; ++r)
        {
            if (m <= 4) { if (!std::next_permutation(perm.begin(), perm.end())) break; }
            else for (std::size_t i = m - 1; i > 0; --i) std::swap(perm[i], perm[rng.below(i + 1)]);
            std::vector<R> w;
            for (std::size_t i : perm) w.push_back(v[i]);
            R o2 = hep::accumulate<hep::weighted_with_variance>(w.cbegin(), w.cend());
            count("permutations_checked");
            if (std::fabs((LD)o2.value() - (LD)out.value()) > tolE || (k * eps<T>() * 64 <= 0.05L && std::fabs((LD)o2.error() - (LD)out.error()) > tolS) ||
                o2.calls() != out.calls())
            {
                viol("law:permutation-dependence", J().s("T", tname<T>::get()).raw("results", describe(v)).uv("perm", perm).f("E1", out.value()).f("E2", o2.value()).f("S1", out.error()).f("S2", o2.error()));
                break;
            }
        }
        // results without non-zero calls are ignored: removing them changes only the counters
        std::vector<R> w;
        for (auto const& r : v) if (r.non_zero_calls() != 0) w.push_back(r);
        if (w.size() != v.size())
        {
            R o3 = hep::accumulate<hep::weighted_with_variance>(w.cbegin(), w.cend());
            std::uint64_t n3 = 0;
            for (auto const& r : w) n3 += r.calls();
            LD k3 = kappa(o.E, o.S, n3);
            count("empty_results_ignored_checked");
            if (std::fabs((LD)o3.value() - (LD)out.value()) > tolE || (std::fmax(k, k3) * eps<T>() * 64 <= 0.05L &&
                std::fabs((LD)o3.error() - (LD)out.error()) > o.S * eps<T>() * 2 * (4 * (m + 8) + 16 * std::fmax(k, k3))))
                viol("law:empty-result-not-ignored", J().s("T", tname<T>::get()).raw("results", describe(v)).f("with", out.value()).f("without", o3.value()).f("S_with", out.error()).f("S_without", o3.error()));
        }
    }
}

void case_equal(Rng& rng)
{
    Gen g = gen();
    std::size_t m = rng.below(10);
    LD scale = std::pow(10.0L, (LD)rng.range(0, 2 * g.emax) - g.emax);
    std::vector<R> v;
    for (std::size_t i = 0; i < m; ++i) v.push_back(make_result(rng, scale, false));
    if (!inputs_ok(v)) { count("inputs_rejected"); return; }
    R out = hep::accumulate<hep::weighted_equally>(v.cbegin(), v.cend());
    J info;
    info.s("T", tname<T>::get()).s("what", "accumulate<weighted_equally>").raw("results", describe(v)).f("out_value", out.value()).f("out_error", out.error());
    ++ctx().evaluations;
    count("equal_combinations");
    if (m == 0)
    {
        if (out.calls() != 0 || out.sum() != T()) viol("equal:empty", info);
        return;
    }
    if (m == 1)
    {
        if (!same_bits(out.sum(), v[0].sum()) || !same_bits(out.sum_of_squares(), v[0].sum_of_squares()) || out.calls() != v[0].calls()) viol("equal:single", info);
        return;
    }
    std::uint64_t calls = 0, nz = 0, fin = 0;
    LD s = 0, s2 = 0, sabs = 0;
    for (auto const& r : v) { calls += r.calls(); nz += r.non_zero_calls(); fin += r.finite_calls(); LD e = r.value(); s += e; s2 += e * e; sabs += std::fabs(e); }
    if (out.calls() != calls || out.non_zero_calls() != nz || out.finite_calls() != fin) { viol("equal:counters", info); return; }
    LD mean = s / m;
    LD var = (s2 / m - mean * mean) / (m - 1);
    LD tolE = (m + 6) * eps<T>() * 4 * (sabs / m + std::fabs(mean));
    if (std::fabs((LD)out.value() - mean) > tolE) { viol("equal:value", J(info).f("expected", mean)); return; }
    // the spread must be resolved in T, otherwise the standard error is rounding noise
    LD kc = (s2 / m) / (s2 / m - mean * mean);
    LD S = std::sqrt(var);
    LD k = kappa(mean, S, calls);
    if (!(var > 0) || kc * eps<T>() * 64 > 0.05L || k * eps<T>() * 64 > 0.05L) { count("ill_conditioned_error_unjudged"); return; }
    LD tolS = S * eps<T>() * (4 * (m + 8) + 16 * k + 16 * kc);
    if (!(std::fabs((LD)out.error() - S) <= tolS)) viol("equal:error", J(info).f("expected", S).f("tol", tolS));
    std::uint64_t sig = hash_str("eq");
    for (auto const& r : v) sig = mix(mix(sig, r.calls()), bits_hash(r.sum()));
    nontrivial(sig);
}

void case_chi(Rng& rng)
{
    Gen g = gen();
    std::size_t m = rng.below(8);
    LD scale = std::pow(10.0L, (LD)rng.range(0, 2 * g.emax) - g.emax);
    std::vector<R> v;
    for (std::size_t i = 0; i < m; ++i) v.push_back(make_result(rng, scale, false));
    if (!inputs_ok(v)) { count("inputs_rejected"); return; }
    for (auto const& r : v) if (r.non_zero_calls() == 0) return;
    T chi = hep::chi_square_dof<hep::weighted_with_variance>(v.cbegin(), v.cend());
    J info;
    info.s("T", tname<T>::get()).s("what", "chi_square_dof").raw("results", describe(v)).f("chi", chi);
    ++ctx().evaluations;
    count("chi_square_calls");
    if (m == 0) { if (chi != T()) viol("chi:empty-not-zero", info); return; }
    if (m == 1) { if (!(std::isinf(chi) && chi > 0)) viol("chi:single-not-infinite", info); return; }
    if (!(chi >= T())) { viol("chi:negative-or-nan", info); return; }
    RefOut o = ref_variance(v);
    LD delta = ((m + 6) * o.sumabs + 4 * std::fabs(o.E)) * eps<T>() * 8;
    LD c = 0, tol = 0;
    for (auto const& r : v)
    {
        LD d = (LD)r.value() - o.E, var = r.variance();
        c += d * d / var;
        tol += (2 * std::fabs(d) * delta + delta * delta) / var;
    }
    c /= (m - 1);
    tol = tol / (m - 1) + 8 * (m + 4) * eps<T>() * c;
    if (!(std::fabs((LD)chi - c) <= tol)) viol("chi:value", J(info).f("expected", c).f("tol", tol));
    std::uint64_t sig = hash_str("chi");
    for (auto const& r : v) sig = mix(mix(sig, r.calls()), bits_hash(r.sum()));
    nontrivial(sig);
}

// results with distributions: every bin is the combination of that bin's results, independently
template <template <typename> class Acc> void dist_case(Rng& rng, char const* accname)
{
    Gen g = gen();
    std::size_t m = rng.range(1, 6);
    std::size_t ndist = rng.range(1, 3);
    std::vector<hep::distribution_parameters<T>> params;
    for (std::size_t j = 0; j < ndist; ++j)
    {
        if (rng.below(2)) params.push_back(hep::distribution_parameters<T>(rng.range(1, 6), T(-1), T(3), "d1"));
        else params.push_back(hep::distribution_parameters<T>(rng.range(1, 4), rng.range(2, 4), T(0), T(1), T(-2), T(2), "two d"));
    }
    LD scale = std::pow(10.0L, (LD)rng.range(0, g.emax) - g.emax / 2);
    std::vector<hep::plain_result<T>> v;
    for (std::size_t i = 0; i < m; ++i)
    {
        std::vector<hep::distribution_result<T>> ds;
        R whole = make_result(rng, scale, false);
        for (auto const& p : params)
        {
            std::vector<R> bins;
            for (std::size_t b = 0; b < p.bins_x() * p.bins_y(); ++b)
            {
                R r = make_result(rng, scale, rng.below(5) == 0);
                bins.push_back(R(whole.calls(), r.non_zero_calls() ? rng.range(1, whole.calls()) : 0, r.non_zero_calls() ? 1 : 0, r.sum() / T(r.calls()) * T(whole.calls()),
                    r.sum_of_squares() / T(r.calls()) * T(whole.calls())));
            }
            ds.push_back(hep::distribution_result<T>(p, bins));
        }
        v.push_back(hep::plain_result<T>(ds, whole.calls(), whole.non_zero_calls(), whole.finite_calls(), whole.sum(), whole.sum_of_squares()));
    }
    hep::plain_result<T> out = hep::accumulate<Acc>(v.cbegin(), v.cend());
    J info;
    info.s("T", tname<T>::get()).s("accumulator", accname).u("results", m).u("distributions", ndist);
    ++ctx().evaluations;
    count("distribution_combinations");
    if (out.distributions().size() != ndist) { viol("distributions:count", J(info).u("got", out.distributions().size())); return; }
    std::vector<R> plain(v.begin(), v.end());
    R whole = hep::accumulate<Acc>(plain.cbegin(), plain.cend());
    if (!same_bits(whole.sum(), out.sum()) || !same_bits(whole.sum_of_squares(), out.sum_of_squares()) || whole.calls() != out.calls() ||
        whole.non_zero_calls() != out.non_zero_calls() || whole.finite_calls() != out.finite_calls())
        viol("distributions:integrated-result-differs", info);
    for (std::size_t j = 0; j < ndist; ++j)
    {
        auto const& dr = out.distributions()[j];
        std::size_t nb = params[j].bins_x() * params[j].bins_y();
        if (dr.results().size() != nb) { viol("distributions:bin-count", J(info).u("distribution", j).u("got", dr.results().size()).u("expected", nb)); return; }
        if (dr.parameters().bins_x() != params[j].bins_x() || dr.parameters().bins_y() != params[j].bins_y() || dr.parameters().name() != params[j].name() ||
            !same_bits(dr.parameters().x_min(), params[j].x_min()) || !same_bits(dr.parameters().bin_size_y(), params[j].bin_size_y()))
            viol("distributions:parameters-changed", J(info).u("distribution", j));
        for (std::size_t b = 0; b < nb; ++b)
        {
            std::vector<R> bins;
            for (auto const& r : v) bins.push_back(r.distributions()[j].results()[b]);
            R e = hep::accumulate<Acc>(bins.cbegin(), bins.cend());
            R const& got = dr.results()[b];
            count("bins_checked");
            bool same = (same_bits(e.sum(), got.sum()) || (std::isnan(e.sum()) && std::isnan(got.sum()))) &&
                (same_bits(e.sum_of_squares(), got.sum_of_squares()) || (std::isnan(e.sum_of_squares()) && std::isnan(got.sum_of_squares()))) &&
                e.calls() == got.calls() && e.non_zero_calls() == got.non_zero_calls() && e.finite_calls() == got.finite_calls();
            if (!same)
            {
                viol("distributions:bin-not-combined-independently", J(info).u("distribution", j).u("bin", b).f("got_sum", got.sum()).f("expected_sum", e.sum()));
                return;
            }
            // and the independent rule itself is the documented one
            if (std::string(accname) == "weighted_with_variance" && inputs_ok(bins))
            {
                bool jd;
                judge_variance(bins, got, "distribution bin", jd);
            }
        }
    }
    nontrivial(mix(hash_str(info.str()), bits_hash(out.sum())));
}

} // namespace

std::uint64_t vfh_num_cases(bool thorough) { return thorough ? 4000000 : 40000; }

void vfh_run_case(std::uint64_t idx, Rng& rng)
{
    switch (idx % 10)
    {
    case 6: case 7: case_equal(rng); break;
    case 8: case_chi(rng); break;
    case 9: if (rng.below(2)) dist_case<hep::weighted_with_variance>(rng, "weighted_with_variance"); else dist_case<hep::weighted_equally>(rng, "weighted_equally"); break;
    default: case_variance(rng); break;
    }
}

void vfh_selftest() {}
